"""Per-property run configuration of the driver (./check).  See DESIGN.md section 3 and 4."""

ARCH_FLAGS = {
    "hsw": "-mavx2 -mpclmul -mbmi -mlzcnt",
    "wsm": "-msse4.2 -mpclmul",
    # the CI configuration of runtime dispatch (g++ only)
    "dyn": "-DSONIC_DYNAMIC_DISPATCH=1 -msse -msse2 -msse4.1 -msse4.2 -mpclmul",
}

# memory-safety UBSan checks are fatal; the arithmetic ones are off (DESIGN 2.6)
_UB = ("-fsanitize=undefined -fno-sanitize=signed-integer-overflow,shift,float-cast-overflow,builtin,alignment,vptr,enum "
       "-fno-sanitize-recover=all")
SAN_FLAGS = {
    "asan": ("g++", "-O1 -g -fno-omit-frame-pointer -fsanitize=address"),
    "asanub": ("g++", "-O1 -g -fno-omit-frame-pointer -fsanitize=address " + _UB),
    "ubsan": ("g++", "-O1 -g -fno-omit-frame-pointer " + _UB),
    "prod": ("g++", "-O2 -g"),
    "tsan": ("g++", "-O1 -g -fno-omit-frame-pointer -fsanitize=thread"),
    # libFuzzer targets (clang only): coverage-guided inputs under ASan
    "fuzz": ("clang++", "-O1 -g -fno-omit-frame-pointer -fsanitize=fuzzer,address"),
}

# hard_rss_limit_mb: a runaway allocation (an endless re-parse, say) ends the worker at 6 GiB resident instead of
# inviting the kernel's out-of-memory killer
ASAN = "abort_on_error=1:halt_on_error=1:allocator_may_return_null=1:detect_stack_use_after_return=0:print_summary=1:hard_rss_limit_mb=6144"
ASAN_ENV = {"ASAN_OPTIONS": ASAN + ":detect_leaks=1", "UBSAN_OPTIONS": "print_stacktrace=1:halt_on_error=1",
            "LSAN_OPTIONS": "exitcode=23"}
ASAN_NOLEAK_ENV = {"ASAN_OPTIONS": ASAN + ":detect_leaks=0", "UBSAN_OPTIONS": "print_stacktrace=1:halt_on_error=1"}


def fill_env(byte, leaks=True):
    e = dict(ASAN_ENV if leaks else ASAN_NOLEAK_ENV)
    e["ASAN_OPTIONS"] += ":malloc_fill_byte=%d:max_malloc_fill_size=268435456" % byte
    return e


# 0x06/0x07/0x0c: node type tags (object / array / owned string); 0x20 blank, 0x22 quote, 0x5c backslash, 0x5d ']', 0x7d '}':
# bytes that change what the scanner does if it ever consumes an unwritten byte of the padded input copy
FILLS_QUICK = [0x00, 0x06, 0x07, 0x0c, 0x20, 0x22, 0x5d, 0x7d, 0xff]
FILLS_ALL = [0x00, 0xbe, 0x06, 0x07, 0x0c, 0x20, 0x22, 0x5c, 0x5d, 0x7d, 0x2c, 0x3a, 0x31, 0xff]

PROPS = {}
PROPS["_libs"] = {"number_harness.cpp": "-lgmp", "toa_harness.cpp": "-lgmp", "../fuzz/fuzz_number.cpp": "-lgmp"}
PROPS["_deps"] = {"../fuzz/fuzz_parse.cpp": ["parse_harness.cpp"], "../fuzz/fuzz_ondemand.cpp": ["ondemand_harness.cpp"],
                  "../fuzz/fuzz_merge.cpp": ["lazy_harness.cpp", "schema_harness.cpp"],
                  "../fuzz/fuzz_number.cpp": ["number_harness.cpp"], "../fuzz/fuzz_string.cpp": ["string_harness.cpp"],
                  "../fuzz/fuzz_history.cpp": ["mutation_harness.cpp"],
                  "../fuzz/fuzz_pool.cpp": ["pool_harness.cpp", "../fuzz/fuzz_streams.inc"], "../fuzz/fuzz_serialize.cpp": ["serialize_harness.cpp", "../fuzz/fuzz_streams.inc"],
                  "../fuzz/fuzz_kernel.cpp": ["kernel_harness.cpp", "../fuzz/fuzz_streams.inc"]}
FUZZ_ENV = {"ASAN_OPTIONS": "abort_on_error=1:detect_leaks=0:allocator_may_return_null=1:quarantine_size_mb=8"}


def fuzz_run(prop, src, runs=1500000, max_len=2048):
    e = dict(FUZZ_ENV)
    e["VF_PROP"] = prop
    return dict(name="libfuzzer", kind="fuzz", src="../fuzz/" + src, cfg="fuzz-hsw", env=e, tiers=("thorough",), fuzz_runs=runs, max_len=max_len)


# ------------------------------------------------------------------------------------------------ C01
PROPS["C01"] = dict(
    technique='runtime monitoring: every input parsed by the real parser under ASan (AVX2) and in a production SSE build; online oracle = independent reference recogniser (accept/reject, fault class, offset bounds); enumerated + generated + mutated + libFuzzer inputs',
    title="Parse accepts exactly RFC 8259 and reports failure coherently",
    rule=("inputs: every byte string of length<=2, every length-3 string over a 24-byte JSON alphabet, length 4 (thorough: <=6) "
          "over a 12-byte alphabet, generated documents x leading pad 0..63, every prefix, every position x 33-byte palette "
          "replacement, random multi-mutations, numbers around the overflow threshold and other range edges in every spelling, hostile "
          "shapes (bracket floods, deep nesting, long tokens); prefixes and mutations repeated with the heap pre-filled with ] and }; each parsed with the "
          "pooling and the malloc/free allocator and judged against the reference recogniser; distinct = 64-bit hash of the input "
          "bytes, inputs of length<=1 are the trivial class"),
    runs=[
        dict(name="asan-hsw", src="parse_harness.cpp", cfg="asan-hsw", args=["--prop", "C01"], env=ASAN_ENV),
        # truncated / mutated texts again with the heap pre-filled with ']' and '}': if the parser ever consumes a byte of
        # the padded copy that was never written, a truncated text is accepted
        dict(name="asan-hsw-fill-5d", src="parse_harness.cpp", cfg="asan-hsw", env=fill_env(0x5d),
             args=["--prop", "C01", "--streams", "all_prefixes,random_mutations,alpha24_len3"]),
        dict(name="asan-hsw-fill-7d", src="parse_harness.cpp", cfg="asan-hsw", env=fill_env(0x7d),
             args=["--prop", "C01", "--streams", "all_prefixes,random_mutations,alpha24_len3"]),
        dict(name="prod-wsm", src="parse_harness.cpp", cfg="prod-wsm", args=["--prop", "C01"], env={}),
        dict(name="prod-dyn-nohsw", src="parse_harness.cpp", cfg="prod-dyn+SONIC_VERIF_DISPATCH_NO_HASWELL", args=["--prop", "C01"], env={}, tiers=("thorough",)),
        dict(name="asanub-hsw", src="parse_harness.cpp", cfg="asanub-hsw", args=["--prop", "C01"], env=ASAN_ENV, tiers=("thorough",)),
    ],
    require=["accepted", "reject:structural", "reject:infinity", "reject:string-fault", "bytes_le2", "all_prefixes",
             "every_pos_x_palette", "oracle-selftest:accepted-by-all", "oracle-selftest:rejected-by-all", "number_range_edges"],
    assumptions=["reference recogniser (harness/common/jmodel.h) implements RFC 8259 and the property's string/number rules; "
                 "it is cross-checked against RapidJSON/nlohmann/strtod by the oracle self-test",
                 "glibc strtod is correctly rounded (decides overflow)"],
)

# ------------------------------------------------------------------------------------------------ C02
def compare_digests(label, prefix=None):
    """post hook: every run of the check (whose name starts with prefix: runs of one build under different heap fills)
    must report identical per-stream outcome digests.  Runs of other builds are not compared: the SSE and AVX2 kernels may
    name different fault kinds inside one malformed string literal (C15's exemption)."""
    def post(ctx):
        out = []
        dg = ctx["digests"]
        names = sorted(n for n in dg if prefix is None or n.startswith(prefix))
        if len(names) < 2:
            return out
        ref = names[0]
        for n in names[1:]:
            for stream in sorted(set(dg[ref]) | set(dg[n])):
                if dg[ref].get(stream) != dg[n].get(stream):
                    out.append(dict(key="%s:%s" % (label, stream), run=n, stream=stream, gidx=-1, witness_hex="",
                                    detail="per-case outcome digest of stream %s differs between run %s (%s) and run %s (%s)" % (
                                        stream, ref, dg[ref].get(stream), n, dg[n].get(stream))))
        return out
    return post


PROPS["C02"] = dict(
    technique='runtime monitoring with sanitizers: ASan+LSan over Parse on arbitrary bytes for pool / adaptive / freeing / ledger allocators, heap-fill sweep (outcome digests must not depend on the fill byte), ledger allocator (exactly-once release), follow-up oracle on reused documents, forked-child stack monitor, libFuzzer',
    post=compare_digests("outcome-depends-on-heap-fill", prefix="asan-fill-"),
    title="Parse is total and memory-safe for every allocator kind",
    rule=("C01's unknown-validity corpus plus reuse histories (2-8 steps of Parse valid/invalid, mutation, move, Swap, "
          "ParseOnDemand, Dump on one document) on pool / adaptive pool / malloc-free / ledger allocators, parses on a pool that lives in "
          "a user-supplied exact-size buffer (aligned or misaligned); every run repeated "
          "under several ASan heap-fill bytes (0x06/0x07/0x0c are node type tags) so that acting on unconstructed memory "
          "changes behaviour; oracles: ASan+LSan, ledger, follow-up results vs reference; distinct = hash of input bytes"),
    runs=[dict(name="asan-fill-%02x" % b, src="parse_harness.cpp", cfg="asan-hsw", args=["--prop", "C02"], env=fill_env(b),
               tiers=("quick", "thorough") if b in FILLS_QUICK else ("thorough",)) for b in FILLS_ALL] + [
        # the SSE kernels (static build and the dispatcher's SSE arm) under ASan
        dict(name="asan-wsm-fill-22", src="parse_harness.cpp", cfg="asan-wsm", args=["--prop", "C02"], env=fill_env(0x22)),
        dict(name="asan-dyn-nohsw-fill-5d", src="parse_harness.cpp", cfg="asan-dyn+SONIC_VERIF_DISPATCH_NO_HASWELL", args=["--prop", "C02"], env=fill_env(0x5d)),
        # production builds (code paths that are compiled out under sanitizers): the ledger allocator wraps every block in
        # guard zones there, so writes past a node or string block are observed without ASan
        dict(name="prod-hsw-ledger", src="parse_harness.cpp", cfg="prod-hsw", args=["--prop", "C02", "--streams", "reuse_histories_track,reuse_histories_simple,adaptive_pool_growth,user_buffer_pool", "--scale", "4"], env={}),
        dict(name="prod-dyn-ledger", src="parse_harness.cpp", cfg="prod-dyn", args=["--prop", "C02", "--streams", "reuse_histories_track,reuse_histories_simple", "--scale", "2"], env={}),
    ],
    require=["adaptive-pool:small-start-meets-large-text", "c02:histories", "c02:followups-after-failed-parse", "c02:ledger-quiescent-checks", "rejected", "accepted",
             "c02:parses-on-user-buffer-pool", "c02:user-buffer-misaligned"],
    assumptions=["ASan red zones / quarantine observe the executed accesses only; heap-fill sweep replaces definedness tracking"],
)

# ------------------------------------------------------------------------------------------------ C03
PROPS["C03"] = dict(
    technique="runtime monitoring: accessor-only read-back of every parsed document compared online with a reference parser's value (order, duplicates, number kind and bits), ASan and production AVX2/SSE/dispatch builds, libFuzzer",
    title="A successful Parse yields exactly the value the text denotes",
    rule=("generated valid texts (all kinds, depth<=5, duplicate keys in every 5th document, whitespace runs up to 200 bytes, "
          "random escapes/number spellings) x leading pad 0..63, container sizes around copy-unroll edges with every kind as "
          "last child, whitespace run 0..200 at every grammar position, every 16-bit \\uXXXX escape (surrogates as valid pairs) in values and keys, "
          "nesting to depth 700 (thorough 1400); the document is "
          "read back through the accessor API only and compared (ordered, duplicates kept, number kind+bits) with the reference "
          "parser's value; distinct = hash of the text"),
    runs=[
        dict(name="asan-hsw", src="parse_harness.cpp", cfg="asan-hsw", args=["--prop", "C03"], env=ASAN_ENV),
        dict(name="prod-hsw", src="parse_harness.cpp", cfg="prod-hsw", args=["--prop", "C03"], env={}),
        dict(name="prod-wsm", src="parse_harness.cpp", cfg="prod-wsm", args=["--prop", "C03"], env={}),
        dict(name="prod-dyn-nohsw", src="parse_harness.cpp", cfg="prod-dyn+SONIC_VERIF_DISPATCH_NO_HASWELL", args=["--prop", "C03"], env={}),
    ],
    require=["accepted", "valid_doc_x_pad", "sizes_and_last_child", "long_whitespace", "deep", "every_u16_escape",
             "c03:parses-into-a-long-lived-reused-document"],
    assumptions=["reference parser value construction (strtod for non-integers, exact decimal comparison for integer kinds)"],
)

# ------------------------------------------------------------------------------------------------ C04
PROPS["C04"] = dict(
    technique='runtime monitoring: parsed number compared online with glibc strtod / exact integer arithmetic (oracle self-tested against from_chars and GMP), GMP audit of the conversion tables, libFuzzer on number spellings, ASan',
    title="Numbers parse to the exact integer or the correctly rounded double",
    rule=("number spellings by family: integers around 10^k/2^63/2^64; random and boundary doubles printed with 0..24 digits, %f, "
          "shortest; exact halfway points between adjacent doubles (from the exact long-double decimal expansion) and just-off-halfway; "
          "decimals just below/at/above every power of two 2^-1074..2^1023; every decimal exponent -400..400 x mantissas of 1..19 and "
          "20..40 digits; >19-digit integer parts followed by an exponent; zero spellings with up to 2000 zeros and huge negative "
          "exponents; 100..2000-digit mantissas; exponent-accumulator edges; the overflow threshold 2^1024-2^970 in all spellings; "
          "each number placed as root (EOF-terminated), array element, object value; oracle = exact decimal comparison for integer "
          "kinds, glibc strtod bits for doubles, strtod=inf <=> rejected with kParseErrorInfinity; plus a GMP audit of all 697 rows "
          "of kPow10M128Tab, kPow10Tab and the 61 LSHIFT_TAB rows; distinct = hash of the number spelling"),
    runs=[
        dict(name="prod-hsw", src="number_harness.cpp", cfg="prod-hsw", env={}, args=["--scale", "10"]),
        dict(name="asan-hsw", src="number_harness.cpp", cfg="asan-hsw", env=ASAN_ENV),
        dict(name="prod-wsm", src="number_harness.cpp", cfg="prod-wsm", env={}),
        dict(name="prod-dyn", src="number_harness.cpp", cfg="prod-dyn", env={}),
        dict(name="prod-dyn-nohsw", src="number_harness.cpp", cfg="prod-dyn+SONIC_VERIF_DISPATCH_NO_HASWELL", env={}, tiers=("thorough",)),
    ],
    require=["context:through-ParseSchema-onto-a-declared-key", "expected:integer-kind", "expected:double", "expected:overflow-rejected", "expected:subnormal", "expected:zero-double",
             "audit:pow10m128-row-exact-floor", "audit:lshift-rows", "context:root(EOF-terminated)", "halfway", "every_table_row",
             "overflow_threshold", "near_power_of_two"],
    assumptions=["glibc strtod is correctly rounded (cross-checked against libstdc++ from_chars in stream oracle_selftest)",
                 "GMP integer arithmetic for the table audit"],
)

# ------------------------------------------------------------------------------------------------ C07
PROPS["C07"] = dict(
    technique='runtime monitoring: F64toa output compared online with std::to_chars (shortest round-trip, self-tested from first principles) and read back with strtod; all 2^32 float values in the thorough tier; ASan + production builds',
    title="Finite doubles print as the shortest round-tripping decimal",
    rule=("doubles: all 2047 biased exponents x 14 significands (0,1,2,2^52-1,2^52-2,2^51, 8 random) both signs; subnormals 1..2000 "
          "and random; integer-valued doubles below/at/beyond 2^53; 10^k +-3 ulp for k=-324..308 (all table entries, the 1e21 and "
          "1e-6 format switches); 2^k +-2 ulp for every k; few-digit decimals at every decimal exponent; random floats widened; random "
          "doubles; thorough: all 2^32 single-precision values. Each output: length<=32 in an exact 33-byte heap block (ASan), JSON "
          "number grammar with fraction or exponent, strtod round trip, digits/exponent == std::to_chars shortest, first-principles "
          "minimality/closeness via exact decimal expansion + GMP on a subset, library Parse round trip (kind and bits) on a subset; "
          "GMP audit of all 617 Pow10CeilSig entries; distinct = bit pattern"),
    runs=[
        dict(name="prod-hsw", src="toa_harness.cpp", cfg="prod-hsw", env={}, args=["--prop", "C07", "--scale", "4"]),
        dict(name="asan-hsw", src="toa_harness.cpp", cfg="asan-hsw", env=ASAN_ENV, args=["--prop", "C07"]),
        dict(name="prod-dyn", src="toa_harness.cpp", cfg="prod-dyn", env={}, args=["--prop", "C07"]),
        dict(name="prod-dyn-nohsw", src="toa_harness.cpp", cfg="prod-dyn+SONIC_VERIF_DISPATCH_NO_HASWELL", env={}, args=["--prop", "C07"]),
    ],
    require=["placement:number-written-at-every-offset-across-a-page-boundary", "number-reached-at-every-remaining-capacity", "doubles-printed", "class:subnormal", "format:scientific", "format:fixed", "first-principles-checks",
             "library-parse-back-checks", "audit:pow10ceil-entries", "every_exponent", "powers_of_ten_neighbours"],
    assumptions=["glibc strtod/printf are correctly rounded / exact", "libstdc++ std::to_chars(double) yields the shortest closest decimal "
                 "(cross-checked by the first-principles subset)"],
)

# ------------------------------------------------------------------------------------------------ C08
PROPS["C08"] = dict(
    technique='runtime monitoring: U64toa / I64toa / Serialize of integer nodes compared online with exact decimal strings; digit-count boundaries, powers of two and ten, random 64-bit values; ASan + production builds',
    title="64-bit integers print as their exact decimal representation",
    rule=("U64toa/I64toa vs snprintf: values below 10^8 with stride 97 (thorough: every value) and, for each, 10^8+x, 10^16+x, "
          "10^16+x*10^8, x*10^8+(99999999-x) (both SSE kernels, both lanes) and -x; every 10^k and 2^k +-2; 64-bit extremes; random "
          "values of every bit length; repeated-digit/carry patterns of 1..20 digits; a subset goes SetUint64/SetInt64 -> Dump -> "
          "Parse and must come back with the same kind and value; exact 33-byte heap blocks under ASan; distinct = value"),
    runs=[
        dict(name="prod-hsw", src="toa_harness.cpp", cfg="prod-hsw", env={}, args=["--prop", "C08", "--scale", "4"]),
        dict(name="asan-hsw", src="toa_harness.cpp", cfg="asan-hsw", env=ASAN_ENV, args=["--prop", "C08"]),
        dict(name="prod-wsm", src="toa_harness.cpp", cfg="prod-wsm", env={}, args=["--prop", "C08"]),
        dict(name="prod-dyn", src="toa_harness.cpp", cfg="prod-dyn", env={}, args=["--prop", "C08"]),
        dict(name="prod-dyn-nohsw", src="toa_harness.cpp", cfg="prod-dyn+SONIC_VERIF_DISPATCH_NO_HASWELL", env={}, args=["--prop", "C08"]),
    ],
    require=["placement:number-written-at-every-offset-across-a-page-boundary", "number-reached-at-every-remaining-capacity", "u64-printed", "i64-printed", "integer-node-roundtrips", "below_1e8_stride", "digit_count_boundaries",
             "arrays_of_long_integers_serialised"],
    assumptions=["glibc snprintf %llu/%lld"],
)

# ------------------------------------------------------------------------------------------------ C09
PROPS["C09"] = dict(
    technique='runtime monitoring: Quote run on operands that end on the last mapped byte before a PROT_NONE guard page (production AVX2/SSE/dispatch builds, SIGSEGV handler) and on exact heap blocks under ASan; output compared online with a byte-wise model; table audit; decision-tape libFuzzer',
    title="String quoting is exact for all bytes and stays inside its buffers",
    rule=("internal::Quote and Node::SetString(ptr,len)+Serialize: every byte value at every position 0..95 of strings of 12 lengths "
          "0..130; dense/random/all-escape strings up to 300 bytes; for every length 0..200 five contents (no escape, escape last, "
          "escape inside the sub-vector tail followed by bytes, mixed, random) with the source ending 0..130 bytes before an unmapped "
          "page and the destination holding exactly 6n+32+3 bytes before an unmapped page (production builds), exact heap blocks "
          "(ASan build); oracle: one-to-one unit alignment of output and input (verbatim byte or a correct escape), length<=6n+2, "
          "output independent of the bytes after the string, decode(serialised)==input; audit of kQuoteTab/kNeedEscaped; distinct = hash of the string"),
    runs=[
        dict(name="prod-hsw", src="kernel_harness.cpp", cfg="prod-hsw", env={}, args=["--prop", "C09"]),
        dict(name="prod-wsm", src="kernel_harness.cpp", cfg="prod-wsm", env={}, args=["--prop", "C09"]),
        dict(name="prod-dyn", src="kernel_harness.cpp", cfg="prod-dyn", env={}, args=["--prop", "C09"]),
        dict(name="asan-hsw", src="kernel_harness.cpp", cfg="asan-hsw", env=ASAN_ENV, args=["--prop", "C09"]),
        dict(name="asan-wsm", src="kernel_harness.cpp", cfg="asan-wsm", env=ASAN_ENV, args=["--prop", "C09"]),
        dict(name="prod-dyn-nohsw", src="kernel_harness.cpp", cfg="prod-dyn+SONIC_VERIF_DISPATCH_NO_HASWELL", env={}, args=["--prop", "C09"]),
        dict(name="asan-dyn", src="kernel_harness.cpp", cfg="asan-dyn", env=ASAN_ENV, args=["--prop", "C09"]),
        dict(name="asan-dyn-nohsw", src="kernel_harness.cpp", cfg="asan-dyn+SONIC_VERIF_DISPATCH_NO_HASWELL", env=ASAN_ENV, args=["--prop", "C09"]),
    ],
    require=["quote-calls", "quote-via-node-serialize", "placement:ends-on-last-mapped-byte", "placement:ends-1..130-bytes-before-unmapped",
             "placement:exact-heap-block", "content:escape-in-sub-vector-tail-followed-by-bytes", "audit:quote-table-entries",
             "quote-after-prefix-in-partly-filled-buffer"],
    assumptions=["a stray read is observable only if it crosses into the PROT_NONE page (production) or the ASan red zone (sanitizer build)"],
)

# ------------------------------------------------------------------------------------------------ C14
PROPS["C14"] = dict(
    technique='runtime monitoring: comparison kernels and member lookups run on operands placed against PROT_NONE guard pages (production builds) and exact heap blocks (ASan), results compared online with memcmp / a byte-wise model for every length and mismatch position; decision-tape libFuzzer',
    title="Member lookup compares keys by exact bytes for every length and address",
    rule=("InlinedMemcmpEq / InlinedMemcmp vs memcmp for every length 0..130 (thorough 300) x mismatch position {none, first, last, each "
          "side of 16/32-byte boundaries, the window a tail-overlap load does not cover, random} x operand a ending 0..64 bytes before "
          "an unmapped page x operand b starting 0..100 bytes after an unmapped page or ending 0..64 before one (production build; exact "
          "heap blocks under ASan); bytes outside the ranges randomised; FindMember(view), FindMember(ptr,len), HasMember, operator[] "
          "against a byte-wise model for key lengths 0..130 with one-byte-different / prefix / extension near misses, with and without "
          "lookup map, copied and referenced keys, query key abutting unmapped memory; distinct = enumerated (length, mismatch) classes + hashed random pairs"),
    runs=[
        dict(name="prod-hsw", src="kernel_harness.cpp", cfg="prod-hsw", env={}, args=["--prop", "C14"]),
        dict(name="prod-wsm", src="kernel_harness.cpp", cfg="prod-wsm", env={}, args=["--prop", "C14"]),
        dict(name="prod-dyn", src="kernel_harness.cpp", cfg="prod-dyn", env={}, args=["--prop", "C14"]),
        dict(name="asan-hsw", src="kernel_harness.cpp", cfg="asan-hsw", env=ASAN_ENV, args=["--prop", "C14"]),
    ],
    require=["memcmp-kernel-pairs", "pairs:equal", "pairs:different", "placement:an-operand-ends-on-last-mapped-byte",
             "placement:31-byte-operand-at-page-offset-4065-vs-page-start", "findmember-queries-with-map", "lookup:hit", "lookup:miss"],
    assumptions=["glibc memcmp as reference; page size 4096"],
)

# ------------------------------------------------------------------------------------------------ C05
PROPS["C05"] = dict(
    technique='runtime monitoring: every literal decoded by the real parser as value, DOM key and on-demand key and compared online with a reference decoder; all 65536 escapes, surrogate matrix, every raw byte, every block offset; ASan, exact-size buffers, libFuzzer',
    title="String literals decode exactly per RFC 8259 escapes, wherever they sit",
    rule=("literal spellings: each of the 8 short escapes and 6 \\u classes at every offset 0..70 with 10 tail lengths; all 65536 single "
          "\\uXXXX in lower/upper/mixed hex; valid surrogate pairs (every high x 64 lows; thorough every pair); every high x 8 "
          "non-low continuations, lone highs/lows in 6 contexts, wrong order; every raw byte at 11 offsets x 3 tails (also after an "
          "earlier escape); backslash + each of 256 bytes; each byte in each of the 4 hex positions; control byte sharing a block with "
          "the first backslash; plain lengths 0..300; random literals. Each literal is judged as array value, DOM key and on-demand key, "
          "at pads 0..31 (all 32 for a subset); oracle = reference decoder (strict surrogate pairing); distinct = hash(raw literal, pad)"),
    runs=[
        dict(name="asan-hsw", src="string_harness.cpp", cfg="asan-hsw", env=ASAN_ENV),
        dict(name="asan-wsm", src="string_harness.cpp", cfg="asan-wsm", env=ASAN_ENV),
        dict(name="prod-dyn", src="string_harness.cpp", cfg="prod-dyn", env={}, tiers=("thorough",)),
        dict(name="prod-dyn-nohsw", src="string_harness.cpp", cfg="prod-dyn+SONIC_VERIF_DISPATCH_NO_HASWELL", env={}),
    ],
    require=["literal:well-formed", "literal:malformed", "role:value", "role:dom-key", "role:on-demand-key", "surrogate:valid-pair",
             "surrogate:pairing-fault", "audit:escape-table-entries", "every_u16", "every_byte"],
    assumptions=["reference decoder jm::ref_string written from RFC 8259 section 7"],
)

# ------------------------------------------------------------------------------------------------ C10
PROPS["C10"] = dict(
    technique='runtime monitoring: on-demand result compared online with full parse + model pointer lookup (success iff resolves, slice inside input and equal value, error and empty slice otherwise); ASan and production AVX2/SSE/dispatch builds; libFuzzer',
    title="On-demand lookup equals full parsing plus pointer lookup",
    rule=("valid texts: 20 hand-built hazard shapes (empty containers followed by siblings, escaped/duplicate keys, strings holding "
          "brackets/quotes/backslashes) x pad 0..63 x blank runs up to 200 bytes; generated documents biased to those hazards x 4 "
          "pads; paths: every existing path (<=64 per text) and for each a family of non-resolving ones (missing key, key "
          "prefix/extension, index=size, size+1, size+k, -1, INT_MAX, wrong-kind step, step past a scalar). Oracle per (text,path): "
          "GetOnDemand succeeds iff the path resolves in the reference tree (first match for duplicate keys); slice inside the input "
          "and its reference parse equals the resolved value; ParseOnDemand document (read through accessors) equals it; otherwise "
          "error + empty slice + ParseOnDemand error. Input is an exact heap copy (ASan co-observes C11). distinct = hash(text,path)"),
    runs=[
        dict(name="asan-hsw", src="ondemand_harness.cpp", cfg="asan-hsw", env=ASAN_ENV, args=["--prop", "C10"]),
        dict(name="asan-wsm", src="ondemand_harness.cpp", cfg="asan-wsm", env=ASAN_ENV, args=["--prop", "C10"]),
        dict(name="prod-dyn", src="ondemand_harness.cpp", cfg="prod-dyn", env={}, args=["--prop", "C10"]),
        dict(name="prod-dyn-nohsw", src="ondemand_harness.cpp", cfg="prod-dyn+SONIC_VERIF_DISPATCH_NO_HASWELL", env={}, args=["--prop", "C10"]),
    ],
    require=["path:resolves", "path:does-not-resolve", "path:through-duplicate-key", "path:through-escaped-key", "path:index-into-empty-array",
             "path:negative-index", "path:wrong-kind-step", "path:missing-key", "path:index-beyond-end", "ParseOnDemand-calls"],
    assumptions=["reference parser + reference path resolution (first matching member)"],
)

# ------------------------------------------------------------------------------------------------ C11
PROPS["C11"] = dict(
    technique='runtime monitoring with sanitizers and guard pages: on-demand scanning of arbitrary unpadded bytes placed on exact heap blocks (ASan) and against PROT_NONE pages (production builds, SIGSEGV handler); success implies slice and offset inside the input; libFuzzer',
    title="On-demand scanning of arbitrary unpadded input stays inside the input",
    rule=("byte strings: all of length<=2, every prefix of generated documents, 1-3 random mutations, truncated literals/tokens ending "
          "exactly at the end of buffers of block-edge lengths (0,1,15-17,31-33,63-67,127-130), hostile shapes, blank runs straddling "
          "the space skipper's 64-byte cache near the end of input; 3 paths each (empty, key, index, nested, negative, escaped key); "
          "placements: exact heap block (ASan builds), ending on the last mapped byte and starting right after an unmapped page "
          "(production builds); the same bytes through ParseOnDemand, UpdateLazy (both roles) and the undeclared-key skip of "
          "ParseSchema; oracle: no ASan report / no fault, success => slice inside input and offset<=len, error => empty slice; "
          "distinct = hash of the bytes"),
    runs=[
        dict(name="asan-hsw", src="ondemand_harness.cpp", cfg="asan-hsw", env=ASAN_NOLEAK_ENV, args=["--prop", "C11"]),
        dict(name="asan-wsm", src="ondemand_harness.cpp", cfg="asan-wsm", env=ASAN_NOLEAK_ENV, args=["--prop", "C11"]),
        dict(name="prod-hsw", src="ondemand_harness.cpp", cfg="prod-hsw", env={}, args=["--prop", "C11"]),
        dict(name="prod-wsm", src="ondemand_harness.cpp", cfg="prod-wsm", env={}, args=["--prop", "C11"]),
        dict(name="prod-dyn", src="ondemand_harness.cpp", cfg="prod-dyn", env={}, args=["--prop", "C11"]),
        dict(name="asanub-hsw", src="ondemand_harness.cpp", cfg="asanub-hsw", env=ASAN_NOLEAK_ENV, args=["--prop", "C11"], tiers=("thorough",)),
        dict(name="prod-dyn-nohsw", src="ondemand_harness.cpp", cfg="prod-dyn+SONIC_VERIF_DISPATCH_NO_HASWELL", env={}, args=["--prop", "C11"]),
    ],
    require=["on-demand-calls-on-arbitrary-bytes", "result:success", "result:error", "placement:ends-on-last-mapped-byte",
             "placement:starts-after-unmapped-page", "placement:exact-heap-block", "UpdateLazy-calls", "ParseSchema-undeclared-skip-calls",
             "length:0", "length:block-edge(15-17,31-33,63-67,127-130)"],
    assumptions=["an out-of-bounds read is observable only when it reaches the ASan red zone (exact heap block) or the PROT_NONE page"],
)

# ------------------------------------------------------------------------------------------------ C06
PROPS["C06"] = dict(
    technique='runtime monitoring: Serialize output checked online by a reference recogniser and re-parsed to the model value; write-buffer fill-level sweep; ASan, production and SSE-dispatch builds; decision-tape libFuzzer',
    title="Serialize output is valid JSON that parses back to an equal document",
    rule=("documents built by parsing generated texts and through the mutation API (arbitrary string bytes incl. NUL/0xff, const/copied "
          "strings and keys, 64-bit integer edges, finite doubles incl. extremes and -0.0, duplicate keys, empty containers as last "
          "child, scalar roots) on pool and malloc allocators; buffer states fresh / WriteBuffer(cap in 0,1,7,8,9,63,64,255,256,257,"
          "4096) / reused after a larger or smaller document / moved-from; fill-level sweep: [[prefix, e x n], tail] for 9 element "
          "kinds x 7 shifts x 6 tails x n=0..460 (thorough 3000) so the cursor crosses every capacity boundary at every residue; "
          "6x-expanding strings after a prefix; non-finite doubles at root/array/object/nested. Oracle: Serialize==none, output accepted "
          "by the reference recogniser and equal to the model (kinds), library re-parse equals model and operator== original, "
          "re-serialisation byte-identical, Dump()==output, Size()==strlen(ToString()); ASan on the realloc'ed buffer block; "
          "non-finite => kSerErrorInfinity and Dump()==\"\"; distinct = hash of the model/text"),
    runs=[
        dict(name="asan-hsw", src="serialize_harness.cpp", cfg="asan-hsw", env=ASAN_ENV),
        dict(name="asan-wsm", src="serialize_harness.cpp", cfg="asan-wsm", env=ASAN_ENV),
        dict(name="prod-dyn", src="serialize_harness.cpp", cfg="prod-dyn", env={}),
        dict(name="prod-dyn-nohsw", src="serialize_harness.cpp", cfg="prod-dyn+SONIC_VERIF_DISPATCH_NO_HASWELL", env={}),
    ],
    require=["value-of-every-kind-at-every-remaining-capacity", "built:by-parsing", "built:through-mutation-api", "shape:duplicate-keys", "shape:scalar-root", "shape:empty-container-last-child",
             "non-finite-documents", "buffer:fresh", "buffer:explicit-small-capacity", "buffer:reused", "buffer:moved-from",
             "fill-level-sweep-documents", "fill-level:final-size-within-8-bytes-of-a-power-of-two"],
    assumptions=["reference recogniser/parser; ASan sees writes past the (8-byte aligned) realloc block only"],
)

# ------------------------------------------------------------------------------------------------ C12
PROPS["C12"] = dict(
    technique='runtime monitoring: lock-step executable model (plain ordered containers) checked after every operation of generated histories, lookups and pointers included; pool (also small-chunk) and freeing allocators; ASan, UBSan subset, production AVX2/SSE/dispatch builds; decision-tape libFuzzer',
    title="The mutation API behaves like plain ordered containers",
    rule=("histories of 20..120 (thorough 400) operations drawn from Set*/SetString(copy|const)/SetArray/SetObject/AddMember(copy|nocopy)/"
          "RemoveMember/EraseMember(range)/MemberReserve/Reserve/PushBack/PopBack/Erase(pos|range)/Clear(+reuse)/assignment/"
          "move-assign (from own sub-node, from a disjoint node)/Swap (disjoint, with own sub-node)/CopyFrom (disjoint node, side "
          "document; copyString on/off)/CreateMap/DestroyMap at random targets anywhere in the tree, on the pool and the malloc/free "
          "allocator; a quarter of the histories allow duplicate keys and never build maps; after EVERY operation the document is "
          "read back through the accessor API (ordered compare with the lock-step model), Dump()+reference parser on a quarter of "
          "the steps, and FindMember(view|ptr,len)/HasMember/operator[]/AtPointer are checked on a random object/path; ASan observes; "
          "distinct = hash of the operation trace"),
    runs=[
        dict(name="asan-hsw", src="mutation_harness.cpp", cfg="asan-hsw", env=ASAN_NOLEAK_ENV, args=["--prop", "C12"]),
        dict(name="asan-dyn", src="mutation_harness.cpp", cfg="asan-dyn", env=ASAN_NOLEAK_ENV, args=["--prop", "C12"]),
        dict(name="asanub-hsw", src="mutation_harness.cpp", cfg="asanub-hsw", env=ASAN_NOLEAK_ENV, args=["--prop", "C12"], tiers=("thorough",)),
        dict(name="prod-hsw", src="mutation_harness.cpp", cfg="prod-hsw", env={}, args=["--prop", "C12"]),
        dict(name="prod-wsm", src="mutation_harness.cpp", cfg="prod-wsm", env={}, args=["--prop", "C12"]),
    ],
    require=["histories-on-a-small-chunk-pool(64..1024 bytes)", "op:argument-aliases-the-target(own element / own value / own bytes)", "histories-with-both-documents-on-one-pool", "op:side-document-parsed-again", "op:node-moved-across-documents-of-one-pool", "operations-checked", "op:CreateMap", "op:DestroyMap", "op:RemoveMember(tail)-while-map-exists", "op:erase-full-or-empty-range",
             "op:growth-from-capacity-0", "op:move-assign-from-own-subnode", "op:Swap-with-own-subnode", "op:CopyFrom",
             "histories-with-duplicate-keys(no-map)", "lookups-checked", "op:reserve-below-size", "op:Clear-then-reuse", "AtPointer-checked",
             "histories-starting-from-a-parsed-document"],
    assumptions=["model semantics taken from the property statement (RemoveMember moves the last member into the hole; first match for duplicate keys)",
                 "histories respect the library's ownership rules (no CopyFrom between ancestor and descendant; raw Swap with a descendant only on the pool allocator)"],
)

# ------------------------------------------------------------------------------------------------ C13
PROPS["C13"] = dict(
    technique='runtime monitoring: ledger allocator recording every Malloc/Realloc/Free (exactly-once release, no foreign free, nothing live at the end) under generated histories incl. move/swap/reparse/ParseSchema/lazy merge on valid and invalid texts; ASan+LSan; decision-tape libFuzzer',
    title="Every allocation is released exactly once; copies are independent",
    rule=("C12's operation generator on a ledger allocator (kNeedFree, every block recorded) extended with Parse of valid and invalid "
          "text, ParseOnDemand, document move construction/assignment, document Swap with a side document, deep copies kept alive "
          "across all later events (their content is re-read after every step), destruction of copies, and scope exit at a random step; "
          "oracles: ledger (foreign/double free at every step; no live block once the last owner is gone), ASan (use after free), LSan, "
          "lock-step model; distinct = hash of the operation trace"),
    runs=[
        dict(name="asan-hsw", src="mutation_harness.cpp", cfg="asan-hsw", env=ASAN_ENV, args=["--prop", "C13"]),
        # ParseSchema histories (valid texts, 1..4 applications, Swap/move hand-over, destruction) on the ledger allocator
        dict(name="prod-hsw", src="mutation_harness.cpp", cfg="prod-hsw", env={}, args=["--prop", "C13"]),
        dict(name="schema-ledger-prod", src="schema_harness.cpp", cfg="prod-hsw", env={},
             args=["--prop", "C13", "--streams", "kind_matrix_ledger,generated_pairs_ledger,invalid_text_ledger"]),
        dict(name="schema-ledger", src="schema_harness.cpp", cfg="asan-hsw", env=ASAN_ENV,
             args=["--prop", "C13", "--streams", "kind_matrix_ledger,generated_pairs_ledger,invalid_text_pool,invalid_text_ledger"]),
    ],
    require=["ParseSchema-on-invalid-text", "invalid-text:rejected", "op:parsed-string-moved-out-and-re-homed", "lazy-parse-or-merge-of-invalid-text(ledger)", "pool-over-ledger:move-assign-between-handles-of-one-pool", "operations-checked", "op:document-move", "op:document-swap", "op:Parse(valid)", "op:Parse(invalid)", "op:ParseOnDemand",
             "copy-independence-checks", "ledger-quiescent-checks", "destruction-at-random-step", "op:CreateMap", "op:CopyFrom",
             "handover(Swap/move)-then-destroy-former-holder", "repeated-applications(2..4 texts)",
             "lazy-merge-on-ledger-allocator", "lazy-merge:escaped-keys"],
    assumptions=["the ledger sees allocator traffic only; the parser's node stack and write buffers use malloc directly and are covered by ASan/LSan",
                 "ParseSchema histories run in the schema harness (second run spec) with only the memory oracles reporting; merge semantics are C19"],
)

# ------------------------------------------------------------------------------------------------ C18
PROPS["C18"] = dict(
    technique='runtime monitoring: operator== / != compared online with a JSON value-equality model on generated pairs and triples (reflexive, symmetric, transitive, permutation-insensitive, number kinds, scalar overloads); ASan and production AVX2/SSE/dispatch builds; decision-tape libFuzzer',
    title="Document equality is JSON value equality",
    rule=("triples (a, b=variant(a), c=variant(b)) of generated duplicate-free values; variants: identical, members permuted at every depth, "
          "one leaf / key / number kind (1 vs 1.0, -0.0 vs 0.0, 2^63) / string length / container length changed, array reordered; each "
          "value is built through a random history (copied/const/mixed strings and keys, const strings sharing an address, reserved "
          "capacity, lookup map, node overwritten by other values first, nulls left behind by moves) on the pool and on the malloc "
          "allocator; checked: reflexive, symmetric, != is the negation, == iff the model values are equal as JSON values with number "
          "kinds, transitivity on the triple, across allocator types, deep copy (both allocator types) and Parse(Dump()) equal the "
          "original; distinct = hash of the value pair"),
    runs=[
        dict(name="asan-hsw", src="mutation_harness.cpp", cfg="asan-hsw", env=ASAN_NOLEAK_ENV, args=["--prop", "C18"]),
        dict(name="prod-dyn", src="mutation_harness.cpp", cfg="prod-dyn", env={}, args=["--prop", "C18"]),
        dict(name="prod-hsw", src="mutation_harness.cpp", cfg="prod-hsw", env={}, args=["--prop", "C18"]),
        dict(name="prod-wsm", src="mutation_harness.cpp", cfg="prod-wsm", env={}, args=["--prop", "C18"]),
    ],
    require=["equality-after-source-document-events", "pairs:model-equal", "pairs:model-different", "triples(transitivity)", "variant:member-permuted", "variant:number-kind-changed",
             "pairs:objects-with-long-shared-prefix-keys(map on one side)", "scalar-comparisons(node == bool/int/uint/double/string)",
             "pairs:across-allocator-types", "history:null-from-moved-from-node", "history:const-strings-sharing-an-address",
             "history:lookup-map-present", "deep-copy/parse-of-dump-checks"],
    assumptions=["model equality jm::equal_unordered (objects as key->value maps, numbers by kind and bits)"],
)

# ------------------------------------------------------------------------------------------------ C19
PROPS["C19"] = dict(
    technique='runtime monitoring: ParseSchema result compared online with an executable merge model over a kind x kind matrix and generated (document, text) pairs with repeated application and hand-over by move/Swap; ledger allocator; ASan; libFuzzer',
    title="ParseSchema updates exactly the members the existing document declares",
    rule=("(existing document, valid text) pairs without duplicate keys: the full 11x11 kind matrix {null,bool,uint,int,double,string,[],"
          "array of scalars, array containing objects, {}, non-empty object} at the root and at a declared key between two untouched "
          "members (x8 instances, thorough x200); generated pairs where the text is derived from the existing value (declared keys in "
          "shuffled order with values of any kind, omitted keys, undeclared keys with container values that the scanner must skip, "
          "nesting to depth 4) with 1..4 texts applied in sequence; documents built by Parse or through the mutation API; pool and "
          "ledger allocators. Oracle: result read through the accessor API == the merge defined by the statement, no parse error, "
          "Dump() re-reads to the same value; a third of the documents are then handed over by Swap or move, the former holder destroyed and "
          "the survivor re-read; ASan; ledger (bad free; nothing live after destruction); distinct = hash(existing, texts)"),
    runs=[
        dict(name="asan-hsw", src="schema_harness.cpp", cfg="asan-hsw", env=ASAN_ENV),
        dict(name="prod-dyn", src="schema_harness.cpp", cfg="prod-dyn", env={}),
        dict(name="prod-wsm", src="schema_harness.cpp", cfg="prod-wsm", env={}),
        dict(name="prod-dyn-nohsw", src="schema_harness.cpp", cfg="prod-dyn+SONIC_VERIF_DISPATCH_NO_HASWELL", env={}),
        dict(name="asan-wsm", src="schema_harness.cpp", cfg="asan-wsm", env=ASAN_ENV, tiers=("thorough",)),
    ],
    require=["(existing,text)-applications", "texts-with-undeclared-container-valued-keys", "repeated-applications(2..4 texts)", "allocator:pool",
             "allocator:ledger", "shape:text-array-containing-object-onto-existing-object", "shape:merge-depth>=3", "ledger-quiescent-checks",
             "handover(Swap/move)-then-destroy-former-holder"],
    assumptions=["merge model written from the property statement; at the root an empty object text leaves a non-empty object unchanged (keys the text omits)"],
)

# ------------------------------------------------------------------------------------------------ C20
PROPS["C20"] = dict(
    technique='runtime monitoring: UpdateLazy result checked online by a reference recogniser and compared with a model merge on reference-parsed trees; exact-size buffers; ASan and production AVX2/SSE/dispatch builds; libFuzzer',
    title="UpdateLazy is a faithful recursive object merge",
    rule=("(target, source) pairs of valid duplicate-free texts: the 9x9 root kind matrix (x whitespace, x nesting variants); sources "
          "derived from the target (overridden keys of any kind, nested objects recursed to depth 5, new keys in between and at the "
          "end, {} values), with plain keys and with keys that need escapes spelled independently on both sides (raw, two-character, "
          "\\uXXXX); prefix-related key families and objects of 100..200 members; unrelated generated documents; whitespace runs. "
          "Both inputs are exact heap copies (ASan co-observes C11). Oracle: result accepted by the reference recogniser and equal "
          "(ordered) to the model merge: target order kept, new keys appended in source order, keys matched by decoded bytes; "
          "distinct = hash(target, source)"),
    runs=[
        dict(name="asan-hsw", src="lazy_harness.cpp", cfg="asan-hsw", env=ASAN_ENV),
        dict(name="asan-wsm", src="lazy_harness.cpp", cfg="asan-wsm", env=ASAN_ENV),
        dict(name="prod-dyn", src="lazy_harness.cpp", cfg="prod-dyn", env={}),
        dict(name="prod-dyn-nohsw", src="lazy_harness.cpp", cfg="prod-dyn+SONIC_VERIF_DISPATCH_NO_HASWELL", env={}),
        dict(name="prod-hsw", src="lazy_harness.cpp", cfg="prod-hsw", env={}),
    ],
    require=["(target,source)-pairs", "pairs-with-escaped-keys", "pairs-where-one-key-is-spelled-differently-on-both-sides",
             "pairs-with-nested-object-merge(depth>=2)", "pairs-appending-new-keys", "pairs-with->=100-members", "pairs-with-whitespace",
             "pairs-with-empty-object-side", "pairs-with-prefix-related-keys"],
    assumptions=["model merge written from the property statement and the documented update rule"],
)

# ------------------------------------------------------------------------------------------------ C16
PROPS["C16"] = dict(
    technique='runtime monitoring: recording base allocator + executable model of the pool (alignment, containment in a recorded chunk, disjointness, content stability, accounting, reference counting) checked after every operation of generated histories; ASan + production builds; decision-tape libFuzzer',
    title="The pool allocator hands out aligned, disjoint, stable blocks",
    rule=("histories of 50..500 (thorough 3000) operations {Malloc, Realloc (most recent block / any block / null / to zero), Clear, copy "
          "construct/assign a handle, move a handle, destroy a handle, Size/Capacity} on MemoryPoolAllocator<recording base, "
          "Simple|Adaptive policy> with chunk capacity 64/128/1024/65536, own buffer (explicit or default-constructed base allocator) "
          "or user buffer (aligned / misaligned); sizes around 0, 7..9, chunk-8..chunk+8, multiples of the chunk, random. After every "
          "operation: 8-byte alignment, block wholly inside exactly one recorded chunk past its header (or the user buffer), disjoint "
          "from every block since the last Clear, Realloc keeps min(old,new) bytes and is in place exactly when the block is the most "
          "recent one and room remains, zero sizes give null, Size()==bytes handed out, Capacity()==sum of recorded chunk capacities; "
          "every live block carries a serial-derived pattern that is re-verified every 32 operations and at the end; all handles but "
          "one destroyed then the pool used again; every chunk returned to the base allocator after the last handle; documents parsed "
          "and grown on 64..1024-byte chunk pools read back correctly; adaptive policy with requests above 64 KiB; ASan on; "
          "distinct = hash of the operation trace"),
    runs=[
        dict(name="asan-hsw", src="pool_harness.cpp", cfg="asan-hsw", env=ASAN_NOLEAK_ENV),
        dict(name="prod-hsw", src="pool_harness.cpp", cfg="prod-hsw", env={}),
    ],
    require=["op:request-that-cannot-be-satisfied(near SIZE_MAX)", "op:move-assign-between-handles-of-one-pool", "op:Malloc", "op:Realloc-in-place", "op:Realloc-moved", "op:Realloc-shrink-or-same", "op:Clear", "op:copy-handle", "op:move-handle",
             "op:destroy-handle", "op:zero-size-request", "pool:user-buffer", "pool:user-buffer-misaligned", "pool:adaptive-policy",
             "pool:simple-policy", "event:new-chunk", "content-reverifications", "op:request-larger-than-chunk",
             "documents-parsed-on-small-chunk-pools", "pool:default-constructed-base-allocator"],
    assumptions=["leak detection is off for this check: a user-buffer pool that overflows into a lazily created base allocator leaks that 1-byte object "
                 "(RapidJSON heritage, outside the statement); chunk release is checked by the recording base allocator instead"],
)

# ------------------------------------------------------------------------------------------------ C17
TSAN_ENV = {"TSAN_OPTIONS": "halt_on_error=0:exitcode=66:history_size=7:second_deadlock_stack=1:report_signal_unsafe=0"}
PROPS["C17"] = dict(
    technique='runtime monitoring with ThreadSanitizer: thread teams on own documents, on shared read-only documents, on a shared locked pool, and cold-start teams in forked children; every TSan report block is a violation; post-join result oracles; production-build post-join block checks',
    title="Independent and shared read-only documents are race-free",
    rule=("thread teams of 8 or 16 under ThreadSanitizer: W1 every thread parses, mutates (AddMember/CreateMap/RemoveMember/PushBack/"
          "Erase/operator[] on a missing key of its own document), serialises, on-demand-extracts, UpdateLazy-s and ParseSchema-s its "
          "own documents (results compared with a single-threaded run of the same work); W2 one document built before the threads "
          "start, with and without lookup maps, read through every const accessor incl. FindMember(view|ptr,len), HasMember, "
          "operator[] on existing AND missing keys, iteration, Back, Capacity, AtPointer (pointer and variadic), operator==/!= against a "
          "twin, Serialize into private buffers; W3 (build with -DSONIC_LOCKED_ALLOCATOR) one pool shared by reference: 200 "
          "Malloc/Realloc per thread with per-thread fill patterns, post-join disjointness/alignment/content check, and one document "
          "per thread built on the shared pool; W3b the same storm through per-thread COPIES of the allocator handle. A ticket counter "
          "records which thread performed each of the first 48 operations: distinct = distinct interleaving prefixes observed"),
    runs=[
        dict(name="tsan-hsw", src="thread_harness.cpp", cfg="tsan-hsw", env=TSAN_ENV, shards=4, shards_quick=4),
        dict(name="tsan-hsw-locked", src="thread_harness.cpp", cfg="tsan-hsw+SONIC_LOCKED_ALLOCATOR", env=TSAN_ENV, shards=4, shards_quick=4),
        dict(name="prod-hsw-locked", src="thread_harness.cpp", cfg="prod-hsw+SONIC_LOCKED_ALLOCATOR", env={}, shards=4, shards_quick=4, args=["--scale", "4"]),
        # the runtime-dispatch build cannot run under ThreadSanitizer (its ifunc resolvers crash before main); it is run
        # without a sanitizer: post-join result oracles and crashes are what is observed there
        dict(name="prod-dyn", src="thread_harness.cpp", cfg="prod-dyn", env={}, shards=4, shards_quick=4, args=["--scale", "4"]),
    ],
    require=["thread-team-runs", "W0:cold-start-teams(first library use in a fresh process is concurrent)", "W1:own-documents(parse,mutate,serialize,on-demand,UpdateLazy,ParseSchema)", "W2:shared-read-only-document",
             "W2:operator[]-on-missing-key", "W2:shared-document-with-lookup-map", "W3:shared-pool-by-reference(locked)",
             "W3:documents-on-the-shared-pool", "W3b:shared-pool-through-handle-copies(locked)", "distinct-interleaving-prefixes(first 48 tickets)"],
    assumptions=["ThreadSanitizer judges the accesses that were executed (happens-before); the runtime-dispatch build cannot start under TSan (ifunc resolver), "
                 "so the static AVX2 build is used"],
)

# ------------------------------------------------------------------------------------------------ C15
def compare_outcome_files(ctx):
    """post hook: per-case outcome digests of every run must be identical; names the first differing cases"""
    import glob
    import os
    import struct
    out = []
    per_run = {}
    for idx, spec in enumerate(ctx["run_specs"]):
        d = {}
        for f in glob.glob(os.path.join(ctx["tmpdir"], "r%d.oc.*" % idx)):
            with open(f, "rb") as fh:
                b = fh.read()
            for off in range(0, len(b) - 15, 16):
                g, h = struct.unpack_from("<QQ", b, off)
                d[g] = (d.get(g, 0) + h) & 0xffffffffffffffff
        per_run[spec["name"]] = d
    names = list(per_run)
    if len(names) < 2:
        return out
    ref = names[0]
    for n in names[1:]:
        a, b = per_run[ref], per_run[n]
        if len(a) != len(b):
            out.append(dict(key="cross-build:case-count-differs", run=n, stream="", gidx=-1, witness_hex="",
                            detail="run %s judged %d cases, run %s %d (a worker died?)" % (ref, len(a), n, len(b))))
        diff = sorted(g for g in a if g in b and a[g] != b[g])
        for g in diff[:5]:
            out.append(dict(key="cross-build-difference:%s-vs-%s" % (ref, n), run=n, stream="", gidx=g, witness_hex="",
                            detail="case %d: outcome digest %016x in %s, %016x in %s (%d cases differ); replay with --only %d in both builds" % (
                                g, a[g], ref, b[g], n, len(diff), g)))
    return out


def _c15_runs():
    runs = []
    for cfg in ["prod-hsw", "prod-wsm", "prod-dyn", "asan-hsw", "asan-wsm", "asan-dyn", "prod-dyn+SONIC_VERIF_DISPATCH_NO_HASWELL"]:
        env = dict(ASAN_NOLEAK_ENV) if cfg.startswith("asan") else {}
        name = cfg.replace("+SONIC_VERIF_DISPATCH_NO_HASWELL", "-nohsw")
        runs.append(dict(name=name, src="xbuild_harness.cpp", cfg=cfg, env=env, outcomes=True))
    return runs


PROPS["C15"] = dict(
    technique='runtime monitoring: one deterministic corpus run in seven builds (AVX2, SSE, dispatch, dispatch forced to SSE via hook H1; ASan and production); offline checker compares per-case outcome digests across builds',
    title="All supported x86 build configurations compute identical results",
    post=compare_outcome_files,
    rule=("one deterministic corpus (generated valid documents with paths and second texts, 1-3 mutations of documents, string literals "
          "with escapes/control bytes/quotes at every alignment as value, key and on-demand key, number spellings of every family, "
          "hostile shapes) is run in seven builds: static AVX2, static SSE4.2, runtime dispatch, each optimised and under ASan, plus the "
          "runtime-dispatch build with its AVX2 variants compiled out (hook H1) so that the dispatcher takes its SSE4.2 arm on this "
          "CPU. Per case one digest covers accept/reject, error code, offset, Dump bytes, GetOnDemand code + slice bounds + offset, "
          "UpdateLazy result, ParseSchema result, Serialize bytes and FindMember results of an API-built document; when the reference "
          "parser places the first fault inside a string literal only accept/reject is digested. The driver compares all builds case "
          "by case; distinct = hash(text, second text)"),
    runs=_c15_runs(),
    require=["corpus-lines", "line:valid-text", "line:invalid-text", "line:fault-inside-string-literal(only accept/reject compared)",
             "on-demand-lookups", "UpdateLazy-calls", "ParseSchema-calls", "api-built-documents-serialised"],
    assumptions=["this CPU has AVX2: the SSE4.2 arm of the dispatcher is reached through hook H1, not through real hardware; g++ 12 only"],
)

# ------------------------------------------------------------------------------------------------ libFuzzer runs (thorough tier)
for _p, _s in [("C01", "fuzz_parse.cpp"), ("C02", "fuzz_parse.cpp"), ("C03", "fuzz_parse.cpp"), ("C10", "fuzz_ondemand.cpp"),
               ("C11", "fuzz_ondemand.cpp"), ("C19", "fuzz_merge.cpp"), ("C20", "fuzz_merge.cpp"), ("C04", "fuzz_number.cpp"), ("C05", "fuzz_string.cpp"), ("C12", "fuzz_history.cpp"), ("C13", "fuzz_history.cpp"), ("C18", "fuzz_history.cpp"),
               ("C16", "fuzz_pool.cpp"), ("C06", "fuzz_serialize.cpp"), ("C09", "fuzz_kernel.cpp"), ("C14", "fuzz_kernel.cpp")]:
    # a history is a few hundred checked operations: fewer, longer executions
    PROPS[_p]["runs"].append(fuzz_run(_p, _s, runs=60000, max_len=4096) if _s == "fuzz_history.cpp" else
                             fuzz_run(_p, _s, runs=15000, max_len=1024) if _s == "fuzz_pool.cpp" else
                             fuzz_run(_p, _s, runs=100000, max_len=1024) if _s in ("fuzz_serialize.cpp", "fuzz_kernel.cpp") else fuzz_run(_p, _s))
