// string_harness.cpp -- C05: string literals decode exactly per RFC 8259, wherever they sit.
// Every literal spelling is exercised as an array value, as a DOM object key and as an on-demand key,
// at varying alignment of the literal to the 16/32-byte scanning blocks.  Oracle: jm::ref_string.
#include "common/jmodel.h"
#include "common/sonic_util.h"
#include "common/vf.h"

using jm::JVal;
using namespace sonic_json;

static vf::Counter c_lit("literals-judged"), c_ok("literal:well-formed"), c_bad("literal:malformed"), c_val("role:value"), c_key("role:dom-key"),
    c_od("role:on-demand-key"), c_od_rawname("role:on-demand-lookup-by-undecoded-spelling-of-an-escaped-key"), c_od_rawbad("role:on-demand-lookup-of-a-malformed-key-by-its-raw-bytes"), c_od_err("on-demand:malformed-key-reported-error"), c_od_raw("on-demand:malformed-key-lookup-reported-success"),
    c_sur_ok("surrogate:valid-pair"), c_sur_bad("surrogate:pairing-fault");

struct Exact {
  char* p;
  size_t n;
  explicit Exact(const std::string& s) : n(s.size()) {
    p = (char*)malloc(n ? n : 1);
    if (n) memcpy(p, s.data(), n);
  }
  ~Exact() { free(p); }
};

static std::string fault_sig(const jm::Fault& f) {
  std::string s;
  if (f.kinds & jm::kFkUnescaped) s += "+ctl";
  if (f.kinds & jm::kFkEscFormat) s += "+esc";
  if (f.kinds & jm::kFkEscUnicode) s += f.surrogate_only ? "+surrogate" : "+unicode";
  if (f.kinds & jm::kFkUnterminated) s += "+unterminated";
  return s.empty() ? "none" : s.substr(1);
}
static std::string len_class(size_t n) { return n < 16 ? "len<16" : n < 32 ? "len<32" : n < 64 ? "len<64" : "len>=64"; }

// raw: the bytes between the quotes.  pad: whitespace bytes in front of the literal's opening quote
// (the role prefix '[' / '{' is placed before the pad so the literal start really moves).
static void judge_literal(const std::string& raw, size_t pad, const char* family) {
  c_lit.add();
  std::string lit = "\"" + raw + "\"";
  std::string expect;
  jm::Fault f;
  size_t i = 0;
  bool wf = jm::ref_string((const unsigned char*)lit.data(), lit.size(), i, &expect, f) && i == lit.size();
  if (!wf && f.cls == jm::Fault::None) {
    // the literal closed early (an unescaped quote inside raw): not a single literal -> skip
    vf::count("harness:skipped-not-a-single-literal");
    return;
  }
  if (wf) c_ok.add(); else c_bad.add();
  vf::distinct(vf::hash_combine(vf::hash_str(raw), pad));
  std::string cls = wf ? "wellformed" : "malformed:" + fault_sig(f);
  if (vf::want_sample(std::string(family) + ":" + cls, 1)) vf::sample(std::string(family) + ":" + cls, vf::printable(lit, 100));
  std::string ws(pad, ' ');

  // ---- role 1: value
  {
    std::string text = "[" + ws + lit + "]";
    vf::witness(text);
    vf::eval();
    c_val.add();
    Exact b(text);
    su::PoolDoc d;
    d.Parse(b.p, b.n);
    bool ok = !d.HasParseError();
    if (ok != wf) {
      vf::violation(std::string(wf ? "wellformed-rejected" : "malformed-accepted:") + (wf ? "" : fault_sig(f)) + ":value",
                    std::string(family) + ": literal " + vf::printable(lit, 120) + " pad " + std::to_string(pad) + (ok ? " accepted" : " rejected with code " + std::to_string((int)d.GetParseError())) +
                        (ok && d.IsArray() && d.Size() == 1 && d[0].IsString() ? " decoded to hex " + vf::hex(d[0].GetString()) : ""));
    } else if (ok) {
      if (!d.IsArray() || d.Size() != 1 || !d[0].IsString()) {
        vf::violation("value-shape", "not an array of one string: " + vf::printable(text));
      } else {
        auto sv = d[0].GetStringView();
        if (sv.size() != expect.size() || memcmp(sv.data(), expect.data(), expect.size()) != 0)
          vf::violation("decode-mismatch:value:" + len_class(raw.size()), std::string(family) + ": literal " + vf::printable(lit, 120) + " pad " + std::to_string(pad) + " decoded to hex " +
                                                                             vf::hex(std::string(sv.data(), sv.size())) + " expected hex " + vf::hex(expect));
      }
    }
  }
  // ---- role 2: DOM key
  {
    std::string text = "{" + ws + lit + ":1}";
    vf::witness(text);
    vf::eval();
    c_key.add();
    Exact b(text);
    su::PoolDoc d;
    d.Parse(b.p, b.n);
    bool ok = !d.HasParseError();
    if (ok != wf) {
      vf::violation(std::string(wf ? "wellformed-rejected" : "malformed-accepted:") + (wf ? "" : fault_sig(f)) + ":key",
                    std::string(family) + ": key literal " + vf::printable(lit, 120) + " pad " + std::to_string(pad) + (ok ? " accepted" : " rejected"));
    } else if (ok) {
      if (!d.IsObject() || d.Size() != 1) {
        vf::violation("key-shape", "not an object of one member: " + vf::printable(text));
      } else {
        auto sv = d.MemberBegin()->name.GetStringView();
        if (sv.size() != expect.size() || memcmp(sv.data(), expect.data(), expect.size()) != 0)
          vf::violation("decode-mismatch:key:" + len_class(raw.size()), std::string(family) + ": key literal " + vf::printable(lit, 120) + " decoded to hex " +
                                                                           vf::hex(std::string(sv.data(), sv.size())) + " expected hex " + vf::hex(expect));
        else if (!d.HasMember(StringView(expect.data(), expect.size())))
          vf::violation("key-not-found-by-decoded-name", vf::printable(lit, 120));
      }
    }
  }
  // ---- role 3b: on-demand lookup by the UNDECODED spelling of an escaped key: no member has that name
  if (wf && raw != expect && raw != "zz" && raw.find('\\') != std::string::npos) {
    std::string text = "{" + ws + "\"zz\":[0]," + lit + ":17 }";
    vf::witness(text);
    vf::eval();
    c_od_rawname.add();
    Exact b(text);
    StringView target("sentinel");
    JsonPointer path;
    path.push_back(JsonPointerNode(raw));
    ParseResult res = GetOnDemand(StringView(b.p, b.n), path, target);
    if (res.Error() == kErrorNone)
      vf::violation("on-demand-found-key-by-its-undecoded-spelling:" + len_class(raw.size()),
                    std::string(family) + ": key literal " + vf::printable(lit, 120) + " looked up with the " + std::to_string(raw.size()) + " raw bytes between its quotes -> success");
  }
  // ---- role 3c: a malformed key literal looked up by its own raw bytes: a rejected literal cannot name a member
  if (!wf && raw != "zz" && raw.find('"') == std::string::npos) {
    std::string text = "{" + ws + "\"zz\":[0]," + lit + ":17 }";
    vf::witness(text);
    vf::eval();
    c_od_rawbad.add();
    Exact b(text);
    StringView target("sentinel");
    JsonPointer path;
    path.push_back(JsonPointerNode(raw));
    ParseResult res = GetOnDemand(StringView(b.p, b.n), path, target);
    if (res.Error() == kErrorNone)
      vf::violation("on-demand-malformed-key-matched-by-its-raw-bytes:" + fault_sig(f),
                    std::string(family) + ": key literal " + vf::printable(lit, 120) + " (rejected by Parse) looked up with its raw bytes -> success, slice " +
                        vf::printable(std::string(target.data(), target.size()), 40));
  }
  // ---- role 3: on-demand key (the scanner works on the caller's unpadded buffer)
  {
    std::string text = "{" + ws + "\"zz\":[0,{\"q\":\"" + std::string(pad % 7, 'x') + "\"}]," + lit + ":17 }";
    vf::witness(text);
    vf::eval();
    c_od.add();
    Exact b(text);
    StringView target("sentinel");
    std::string path_key = wf ? expect : "no-such-key";
    JsonPointer path;
    path.push_back(JsonPointerNode(path_key));
    ParseResult res = GetOnDemand(StringView(b.p, b.n), path, target);
    if (wf) {
      bool dup_of_zz = expect == "zz";
      if (res.Error() != kErrorNone) {
        vf::violation("on-demand-key-not-found:" + len_class(raw.size()), std::string(family) + ": key literal " + vf::printable(lit, 120) + " pad " + std::to_string(pad) +
                                                                             " looked up by its decoded value -> error " + std::to_string((int)res.Error()));
      } else if (!dup_of_zz) {
        std::string got(target.data(), target.size());
        // the slice is the raw value; trailing blanks may be part of a number slice
        while (!got.empty() && got.back() == ' ') got.pop_back();
        if (got != "17" || target.data() < b.p || target.data() + target.size() > b.p + b.n)
          vf::violation("on-demand-wrong-slice", std::string(family) + ": key literal " + vf::printable(lit, 120) + " returned slice " + vf::printable(got, 60));
      }
    } else {
      // malformed key literal, looked up with a key that no member has: whether the scanner decodes the
      // malformed key (it must, when it contains a backslash) or skips it as raw bytes, the lookup cannot
      // succeed; it must report an error and leave the slice empty.
      if (res.Error() != kErrorNone) {
        c_od_err.add();
        if (target.size() != 0) vf::violation("on-demand-error-with-nonempty-slice", vf::printable(lit, 120));
        if ((int)res.Error() < 0 || (int)res.Error() >= (int)kErrorNums) vf::violation("on-demand-bad-error-code", std::to_string((int)res.Error()));
      } else {
        c_od_raw.add();
        bool outside = target.data() < b.p || target.data() + target.size() > b.p + b.n || target.size() > b.n;
        vf::violation(std::string("on-demand-success-for-absent-key:malformed-key:") + fault_sig(f) + (outside ? ":slice-outside-input" : ""),
                      std::string(family) + ": key literal " + vf::printable(lit, 120) + " and path key 'no-such-key' -> success with slice of size " +
                          std::to_string(target.size()));
      }
    }
  }
}

// all the alignments a literal is tried at
static void judge_at_pads(const std::string& raw, vf::Rng& r, const char* family, bool all_pads) {
  if (all_pads) {
    for (size_t pad = 0; pad < 32; pad++) judge_literal(raw, pad, family);
  } else {
    judge_literal(raw, 0, family);
    judge_literal(raw, r.range(1, 31), family);
  }
}

static std::string u_escape(uint32_t cu, int hexcase) {
  char b[8];
  static const char* fmts[] = {"\\u%04x", "\\u%04X"};
  snprintf(b, sizeof b, fmts[hexcase & 1], cu);
  std::string s = b;
  if (hexcase >= 2)  // mixed case: alternate
    for (size_t i = 2; i < s.size(); i++)
      if (isalpha((unsigned char)s[i])) s[i] = (i & 1) ? (char)toupper(s[i]) : (char)tolower(s[i]);
  return s;
}
static std::string filler(size_t n, vf::Rng& r) {
  std::string s(n, 'a');
  int mode = (int)r.below(3);
  for (auto& c : s) c = mode == 0 ? 'a' : mode == 1 ? (char)r.range(0x23, 0x5b) : (char)r.range(0x80, 0xff);
  return s;
}

static void audit_tables() {
  using namespace sonic_json::internal;
  for (int c = 0; c < 256; c++) {
    vf::eval();
    uint8_t want = 0;
    switch (c) {
      case '"': want = '"'; break;
      case '\\': want = '\\'; break;
      case '/': want = '/'; break;
      case 'b': want = '\b'; break;
      case 'f': want = '\f'; break;
      case 'n': want = '\n'; break;
      case 'r': want = '\r'; break;
      case 't': want = '\t'; break;
    }
    if (kEscapedMap[c] != want) vf::violation("table-audit:kEscapedMap", "entry " + std::to_string(c) + " is " + std::to_string(kEscapedMap[c]));
    int h = jm::hexval((unsigned char)c);
    static const int base[4] = {630, 420, 210, 0};
    for (int pos = 0; pos < 4; pos++) {
      uint32_t w = h < 0 ? 0xFFFFFFFFu : (uint32_t)h << (4 * (3 - pos));
      if (common::digit_to_val32[base[pos] + c] != w)
        vf::violation("table-audit:digit_to_val32", "hex position " + std::to_string(pos) + " byte " + std::to_string(c));
    }
    vf::count("audit:escape-table-entries");
  }
  vf::distinct_enum(256);
}

#ifndef VF_FUZZ_TARGET
int main(int argc, char** argv) {
  std::vector<vf::Stream> S;
  S.push_back({"table_audit", 1, 1, [](uint64_t, vf::Rng&) { audit_tables(); }, false});

  // every short escape and \u class at every offset 0..70, several total lengths, all 32 alignments for a subset
  S.push_back({"escape_at_every_offset", 14 * 71, 14 * 71 * 8, [](uint64_t i, vf::Rng& r) {
                 static const char* esc[] = {"\\\"", "\\\\", "\\/", "\\b", "\\f", "\\n", "\\r", "\\t", "\\u0041", "\\u00e9", "\\u20AC", "\\ud83d\\ude00",
                                             "\\u0000", "\\uFFFF"};
                 const char* e = esc[(i / 71) % 14];
                 size_t off = i % 71;
                 for (size_t tail : {(size_t)0, (size_t)1, (size_t)14, (size_t)15, (size_t)16, (size_t)30, (size_t)31, (size_t)32, (size_t)33, (size_t)r.range(34, 100)}) {
                   std::string raw = filler(off, r) + e + filler(tail, r);
                   judge_at_pads(raw, r, "escape-offset", off % 9 == 0 && tail == 15);
                 }
               }});

  // all 65536 single \uXXXX, in lower, upper and mixed hex case
  S.push_back({"every_u16", 65536 / 64, 65536 / 64, [](uint64_t i, vf::Rng& r) {
                 for (uint32_t k = 0; k < 64; k++) {
                   uint32_t cu = (uint32_t)i * 64 + k;
                   for (int hc = 0; hc < 3; hc++) {
                     if (hc == 2 && !(cu & 0x0aaa)) continue;
                     std::string raw = u_escape(cu, hc);
                     if (cu >= 0xd800 && cu <= 0xdfff) c_sur_bad.add();
                     judge_literal(raw, (cu + hc) % 32, "single-u");
                     if ((cu & 0xff) == 0x7f) judge_literal(filler(r.range(1, 40), r) + raw + filler(r.range(0, 40), r), r.below(32), "single-u");
                   }
                 }
               }, false});

  // surrogates: valid pairs (quick: 65536 sampled + structured; thorough: all 1024x1024)
  S.push_back({"surrogate_pairs", 1024, 1024 * 16, [](uint64_t i, vf::Rng& r) {
                 uint32_t hi = 0xd800 + (uint32_t)(i % 1024);
                 bool thorough = vf::args().thorough;
                 uint32_t per = thorough ? 64 : 64;
                 for (uint32_t k = 0; k < per; k++) {
                   uint32_t lo;
                   if (thorough) lo = 0xdc00 + (uint32_t)((i / 1024) * 64 + k) % 1024;
                   else lo = 0xdc00 + (k < 4 ? (k == 0 ? 0 : k == 1 ? 1023 : k == 2 ? 1 : 512) : (uint32_t)r.below(1024));
                   c_sur_ok.add();
                   std::string raw = u_escape(hi, (int)r.below(3)) + u_escape(lo, (int)r.below(3));
                   if (k % 8 == 0) raw = filler(r.below(40), r) + raw + filler(r.below(40), r);
                   judge_literal(raw, r.below(32), "valid-pair");
                 }
               }, false});
  // pairing faults: every high x bad continuation, every lone low, high followed by non-\u bytes
  S.push_back({"surrogate_faults", 2048, 2048, [](uint64_t i, vf::Rng& r) {
                 uint32_t s = 0xd800 + (uint32_t)i;
                 if (s < 0xdc00) {
                   static const uint32_t bad[] = {0xdbff, 0xd800, 0xe000, 0x0041, 0xffff, 0x0000, 0xdbfe, 0xd7ff};
                   for (uint32_t b2 : bad) {
                     c_sur_bad.add();
                     judge_literal(u_escape(s, (int)r.below(3)) + u_escape(b2, (int)r.below(3)), r.below(32), "high+non-low");
                   }
                   c_sur_bad.add();
                   judge_literal(u_escape(s, 0), r.below(32), "lone-high");                      // high at the end of the literal
                   judge_literal(u_escape(s, 1) + "A", r.below(32), "lone-high");                // high followed by a plain byte
                   judge_literal(u_escape(s, 0) + "\\n", r.below(32), "lone-high");              // high followed by a short escape
                   judge_literal(u_escape(s, 0) + "\\u", r.below(32), "lone-high");              // truncated second escape
                   // the second escape's introducer is wrong in exactly one of its two bytes, four low-surrogate digits follow
                   {
                     char lo[8];
                     snprintf(lo, sizeof lo, "%04x", 0xdc00 + (unsigned)r.below(1024));
                     judge_literal(u_escape(s, 0) + "\\n" + lo, r.below(32), "high+wrong-introducer");
                     judge_literal(u_escape(s, 0) + "Xu" + lo, r.below(32), "high+wrong-introducer");
                     judge_literal(u_escape(s, 0) + "\\U" + lo, r.below(32), "high+wrong-introducer");
                     judge_literal(u_escape(s, 0) + "\\\\u" + lo, r.below(32), "high+wrong-introducer");
                   }
                   judge_literal(filler(r.range(1, 40), r) + u_escape(s, 0) + filler(r.range(1, 40), r), r.below(32), "lone-high");
                   // a valid pair followed by another high / low
                   judge_literal(u_escape(s, 0) + u_escape(0xdc00 + (uint32_t)r.below(1024), 0) + u_escape(0xdc00 + (uint32_t)r.below(1024), 0), r.below(32), "pair+lone-low");
                 } else {
                   c_sur_bad.add();
                   judge_literal(u_escape(s, (int)r.below(3)), r.below(32), "lone-low");
                   judge_literal(filler(r.range(1, 40), r) + u_escape(s, 0) + filler(r.range(0, 40), r), r.below(32), "lone-low");
                   judge_literal(u_escape(s, 0) + u_escape(0xd800 + (uint32_t)r.below(1024), 0), r.below(32), "low+high(wrong order)");
                   judge_literal(u_escape(s, 0) + u_escape(0xdc00 + (uint32_t)r.below(1024), (int)r.below(3)), r.below(32), "low+low");
                   judge_literal(u_escape(s, 0) + u_escape(s, 0), r.below(32), "low+low");
                   judge_literal(u_escape(s, 0) + u_escape(r.coin() ? 0xdc00 : 0xdfff, 0), r.below(32), "low+low");
                   judge_literal(u_escape(s, 0) + u_escape((uint32_t)r.below(0xd800), 0), r.below(32), "low+bmp");
                 }
               }, false});

  // every raw byte value at several offsets; backslash + every byte; non-hex byte in each \u position
  S.push_back({"every_byte", 256, 256, [](uint64_t i, vf::Rng& r) {
                 unsigned char c = (unsigned char)i;
                 for (size_t off : {(size_t)0, (size_t)1, (size_t)15, (size_t)16, (size_t)17, (size_t)31, (size_t)32, (size_t)33, (size_t)63, (size_t)64, (size_t)70}) {
                   for (size_t tail : {(size_t)0, (size_t)5, (size_t)40}) {
                     std::string raw = filler(off, r) + std::string(1, (char)c) + filler(tail, r);
                     judge_literal(raw, r.below(32), "raw-byte");
                     // the same byte after an earlier escape (second scanning phase of the decoder)
                     judge_literal("\\n" + raw, r.below(32), "raw-byte-after-escape");
                   }
                 }
                 for (size_t off : {(size_t)0, (size_t)7, (size_t)31, (size_t)32, (size_t)50}) {
                   std::string raw = filler(off, r) + "\\" + std::string(1, (char)c) + filler(r.below(40), r);
                   if (c == 'u') raw = filler(off, r) + "\\u" + "12" + filler(3, r);
                   judge_literal(raw, r.below(32), "backslash+byte");
                 }
                 for (int pos = 0; pos < 4; pos++) {
                   std::string h = "00e9";
                   h[pos] = (char)c;
                   judge_literal(filler(r.below(40), r) + "\\u" + h + filler(r.below(40), r), r.below(32), "u-with-byte-in-hex-position");
                 }
               }, false});

  // a control byte that shares a vector block with the first backslash, before and after it
  S.push_back({"ctl_near_first_backslash", 2000, 100000, [](uint64_t, vf::Rng& r) {
                 size_t n = r.range(3, 80);
                 std::string raw = filler(n, r);
                 size_t bs = r.below(n - 1);
                 raw[bs] = '\\';
                 raw[bs + 1] = "nt\"\\/bfr"[r.below(8)];
                 size_t cp;
                 do cp = r.below(n); while (cp == bs || cp == bs + 1);
                 raw[cp] = (char)r.below(0x20);
                 judge_literal(raw, r.below(32), cp < bs ? "ctl-before-first-backslash" : "ctl-after-backslash");
               }});

  S.push_back({"plain_lengths", 301, 301, [](uint64_t i, vf::Rng& r) {
                 judge_at_pads(filler(i, r), r, "plain", i % 16 == 0);
               }, false});

  S.push_back({"random_literals", 20000, 2000000, [](uint64_t, vf::Rng& r) {
                 size_t n = r.range(0, 90);
                 std::string raw;
                 for (size_t k = 0; k < n; k++) {
                   switch (r.below(12)) {
                     case 0: raw += "\\"; raw += "\"\\/bfnrt"[r.below(8)]; break;
                     case 1: raw += u_escape((uint32_t)r.below(0x10000), (int)r.below(3)); break;
                     case 2: {
                       uint32_t cp = (uint32_t)r.range(0x10000, 0x10ffff) - 0x10000;
                       raw += u_escape(0xd800 + (cp >> 10), (int)r.below(3)) + u_escape(0xdc00 + (cp & 0x3ff), (int)r.below(3));
                       break;
                     }
                     case 3: if (r.below(6) == 0) raw += (char)r.below(0x20); else raw += 'z'; break;
                     case 4: if (r.below(8) == 0) raw += "\\" + std::string(1, (char)r.below(256)); else raw += 'y'; break;
                     case 5: raw += (char)r.range(0x80, 0xff); break;
                     default: raw += (char)r.range(0x23, 0x5b); break;
                   }
                 }
                 judge_literal(raw, r.below(32), "random");
               }});
  return vf::run(argc, argv, S);
}
#endif  // VF_FUZZ_TARGET
