// ondemand_harness.cpp -- C10 (on-demand lookup == full parse + pointer lookup, on valid text) and
// C11 (on-demand scanning of arbitrary unpadded bytes stays inside the input).
//   --prop C10 | C11
#include "common/guard.h"
#include "common/jmodel.h"
#include "common/sonic_util.h"
#include "common/vf.h"
#include "sonic/experiment/lazy_update.h"

using jm::JVal;
using namespace sonic_json;
static std::string g_prop = "C10";

struct Step {
  bool is_key;
  std::string key;
  int idx;
};
using Path = std::vector<Step>;

static JsonPointer to_pointer(const Path& p) {
  JsonPointer jp;
  for (auto& s : p) {
    if (s.is_key) jp.push_back(JsonPointerNode(s.key)); else jp.push_back(JsonPointerNode(s.idx));
  }
  return jp;
}
static std::string path_str(const Path& p) {
  std::string o;
  for (auto& s : p) o += s.is_key ? "/\"" + vf::printable(s.key, 30) + "\"" : "/" + std::to_string(s.idx);
  return o.empty() ? "(root)" : o;
}
// reference resolution: first matching member for duplicate keys
static const JVal* resolve(const JVal& v, const Path& p) {
  const JVal* cur = &v;
  for (auto& s : p) {
    if (s.is_key) {
      if (cur->k != JVal::Obj) return nullptr;
      const JVal* nx = nullptr;
      for (auto& m : cur->o)
        if (m.first == s.key) {
          nx = &m.second;
          break;
        }
      if (!nx) return nullptr;
      cur = nx;
    } else {
      if (cur->k != JVal::Arr || s.idx < 0 || (size_t)s.idx >= cur->a.size()) return nullptr;
      cur = &cur->a[s.idx];
    }
  }
  return cur;
}
static void all_paths(const JVal& v, Path& cur, std::vector<Path>& out, size_t limit) {
  if (out.size() >= limit) return;
  out.push_back(cur);
  if (v.k == JVal::Arr) {
    for (size_t i = 0; i < v.a.size() && out.size() < limit; i++) {
      cur.push_back({false, "", (int)i});
      all_paths(v.a[i], cur, out, limit);
      cur.pop_back();
    }
  } else if (v.k == JVal::Obj) {
    for (size_t i = 0; i < v.o.size() && out.size() < limit; i++) {
      cur.push_back({true, v.o[i].first, 0});
      all_paths(v.o[i].second, cur, out, limit);
      cur.pop_back();
    }
  }
}

struct Exact {
  char* p;
  size_t n;
  explicit Exact(const std::string& s) : n(s.size()) {
    p = (char*)malloc(n ? n : 1);
    if (n) memcpy(p, s.data(), n);
  }
  ~Exact() { free(p); }
};

static vf::Counter c_pairs("(text,path)-pairs"), c_res("path:resolves"), c_nores("path:does-not-resolve"), c_dup("path:through-duplicate-key"),
    c_esc("path:through-escaped-key"), c_emptyc("path:index-into-empty-array"), c_neg("path:negative-index"), c_wrong("path:wrong-kind-step"),
    c_missing("path:missing-key"), c_beyond("path:index-beyond-end"), c_pod("ParseOnDemand-calls");

static std::string why_not(const JVal& root, const Path& p) {
  // classify the first failing step
  const JVal* cur = &root;
  for (auto& s : p) {
    if (s.is_key) {
      if (cur->k != JVal::Obj) return "wrong-kind(key-into-" + std::string(jm::kind_name(cur->k)) + ")";
      const JVal* nx = nullptr;
      for (auto& m : cur->o)
        if (m.first == s.key) { nx = &m.second; break; }
      if (!nx) return cur->o.empty() ? "missing-key(empty-object)" : "missing-key";
      cur = nx;
    } else {
      if (cur->k != JVal::Arr) return "wrong-kind(index-into-" + std::string(jm::kind_name(cur->k)) + ")";
      if (s.idx < 0) return "negative-index";
      if ((size_t)s.idx >= cur->a.size()) return cur->a.empty() ? "index-into-empty-array" : "index-beyond-end";
      cur = &cur->a[s.idx];
    }
  }
  return "resolves";
}

static void judge_pair(const std::string& text, const jm::RefResult& ref, const Path& p, const Exact& buf) {
  c_pairs.add();
  vf::eval();
  const JVal* want = resolve(ref.v, p);
  JsonPointer jp = to_pointer(p);
  StringView target("sentinel-value");
  vf::note("GetOnDemand");
  ParseResult res = GetOnDemand(StringView(buf.p, buf.n), jp, target);
  std::string cls = why_not(ref.v, p);
  if (want) c_res.add(); else c_nores.add();
  if (cls == "index-into-empty-array") c_emptyc.add();
  else if (cls == "negative-index") c_neg.add();
  else if (cls.rfind("wrong-kind", 0) == 0) c_wrong.add();
  else if (cls.rfind("missing-key", 0) == 0) c_missing.add();
  else if (cls == "index-beyond-end") c_beyond.add();
  std::string ctx = "path " + path_str(p) + " text=" + vf::printable(text, 160);
  if (want) {
    if (res.Error() != kErrorNone) {
      vf::violation("resolving-path-reported-error", ctx + " -> error " + std::to_string((int)res.Error()) + " at " + std::to_string(res.Offset()));
      return;
    }
    if (target.data() < buf.p || target.data() + target.size() > buf.p + buf.n) {
      vf::violation("slice-outside-input", ctx);
      return;
    }
    if (res.Offset() > buf.n) vf::violation("offset-beyond-length", ctx);
    std::string slice(target.data(), target.size());
    jm::RefResult rs = jm::ref_parse(slice);
    if (!rs.ok || !jm::equal(rs.v, *want)) {
      vf::violation("slice-value-mismatch", ctx + " slice=" + vf::printable(slice, 80) + " expected " + jm::describe(*want, 120));
      return;
    }
    // ParseOnDemand yields the same value
    c_pod.add();
    su::PoolDoc d;
    vf::note("ParseOnDemand");
    d.ParseOnDemand(buf.p, buf.n, jp);
    JVal got;
    std::string why;
    if (d.HasParseError()) {
      vf::violation("parseondemand-error-on-resolving-path", ctx + " -> error " + std::to_string((int)d.GetParseError()));
    } else if (!su::read_node(d, got, why) || !jm::equal(got, *want)) {
      vf::violation("parseondemand-value-mismatch", ctx + " got " + jm::describe(got, 100) + " expected " + jm::describe(*want, 100));
    }
  } else {
    if (res.Error() == kErrorNone) {
      std::string slice = (target.data() >= buf.p && target.data() + target.size() <= buf.p + buf.n) ? std::string(target.data(), target.size()) : "(outside input)";
      vf::violation("non-resolving-path-returned-value:" + cls, ctx + " -> success with slice " + vf::printable(slice, 60));
      return;
    }
    if (target.size() != 0) vf::violation("error-with-nonempty-slice:" + cls, ctx);
    su::PoolDoc d;
    d.ParseOnDemand(buf.p, buf.n, jp);
    c_pod.add();
    if (!d.HasParseError()) vf::violation("parseondemand-success-on-non-resolving-path:" + cls, ctx + " -> " + d.Dump());
  }
}

// family of non-resolving paths derived from an existing one
static void derived_paths(const JVal& root, const Path& base, vf::Rng& r, std::vector<Path>& out) {
  const JVal* at = resolve(root, base);
  if (!at) return;
  auto with = [&](Step s) {
    Path p = base;
    p.push_back(s);
    out.push_back(p);
  };
  if (at->k == JVal::Obj) {
    with({true, "no_such_key_" + std::to_string(r.below(1000)), 0});
    if (!at->o.empty()) {
      const std::string& k = at->o[r.below(at->o.size())].first;
      if (!k.empty()) with({true, k.substr(0, k.size() - 1), 0});  // proper prefix (may coincide with another key: oracle decides)
      with({true, k + "x", 0});
    }
    with({false, "", 0});  // index into object
    with({false, "", -1});
  } else if (at->k == JVal::Arr) {
    with({false, "", (int)at->a.size()});
    with({false, "", (int)at->a.size() + 1});
    with({false, "", -1});
    with({false, "", INT32_MAX});
    with({false, "", (int)at->a.size() + (int)r.range(2, 50)});
    with({true, "a", 0});  // key into array
    with({true, "", 0});
  } else {
    with({true, "a", 0});  // step past a scalar
    with({false, "", 0});
    with({false, "", 1});
  }
}

// generator biased to the skipper's hazards
static JVal gen_hazard_doc(vf::Rng& r) {
  jm::GenOpts go;
  go.max_depth = 4;
  go.dup_keys = r.below(4) == 0;
  go.max_members = 6;
  JVal v = jm::gen_document(r, go);
  // sprinkle empty containers and bracket-laden strings
  std::function<void(JVal&, int)> spice = [&](JVal& x, int depth) {
    if (x.k == JVal::Arr) {
      if (r.below(3) == 0) x.a.insert(x.a.begin() + r.below(x.a.size() + 1), r.coin() ? JVal::arr() : JVal::obj());
      if (r.below(4) == 0) x.a.insert(x.a.begin() + r.below(x.a.size() + 1), JVal::str(r.coin() ? "]},{[\\\"" : "\\\\"));
      for (auto& e : x.a) spice(e, depth + 1);
    } else if (x.k == JVal::Obj) {
      if (r.below(3) == 0) x.o.emplace_back("e" + std::to_string(r.below(100)) + (r.coin() ? "\n" : ""), r.coin() ? JVal::arr() : JVal::obj());
      if (r.below(4) == 0) x.o.emplace_back("q\"" + std::to_string(r.below(100)), JVal::str("a\\"));
      for (auto& m : x.o) spice(m.second, depth + 1);
    }
  };
  spice(v, 0);
  if (!go.dup_keys) {
    // spice may have created duplicates by accident: harmless (first match semantics are part of the oracle)
  }
  return v;
}

static void c10_case(uint64_t, vf::Rng& r) {
  JVal v = gen_hazard_doc(r);
  jm::RenderOpts ro;
  ro.ws_percent = (unsigned)r.pick(std::vector<unsigned>{0, 0, 10, 30, 60});
  ro.long_ws_permille = 30;
  ro.esc_percent = (unsigned)r.pick(std::vector<unsigned>{0, 10, 40});
  std::string body = jm::render(v, r, ro);
  size_t npads = 4;
  for (size_t k = 0; k < npads; k++) {
    size_t pad = k == 0 ? 0 : r.range(1, 63);
    std::string text = std::string(pad, ' ') + body;
    jm::RefResult ref = jm::ref_parse(text);
    if (!ref.ok) {
      vf::violation("harness:generated-text-invalid", vf::printable(text));
      return;
    }
    vf::witness(text);
    Exact buf(text);
    std::vector<Path> paths;
    Path cur;
    all_paths(ref.v, cur, paths, 64);
    std::vector<Path> bad;
    for (size_t i = 0; i < paths.size(); i++)
      if (i < 8 || r.below(4) == 0) derived_paths(ref.v, paths[i], r, bad);
    for (auto& p : paths) {
      vf::distinct(vf::hash_combine(vf::hash_str(text), vf::hash_str(path_str(p))));
      judge_pair(text, ref, p, buf);
    }
    for (auto& p : bad) {
      vf::distinct(vf::hash_combine(vf::hash_str(text), vf::hash_str(path_str(p))));
      judge_pair(text, ref, p, buf);
    }
    if (jm::has_dup_keys(ref.v)) c_dup.add();
    if (text.find('\\') != std::string::npos) c_esc.add();
  }
}

// hand-built shapes: empty containers followed by siblings, escaped keys, strings with structure bytes at block edges
static void c10_shapes(uint64_t i, vf::Rng& r) {
  static const char* shapes[] = {
      "[[],5]", "{\"a\":[],\"b\":1}", "[{},7]", "{\"a\":{},\"b\":[1,2]}", "[[[]],[1]]", "[\"\",[]]", "{\"\":1}", "{\"a\":{\"\":[]}}",
      "[[],[],[3]]", "{\"k\":[[],[[]],{}],\"z\":0}", "[1,[2,[3,[4,[]]]],5]", "{\"a\\nb\":1,\"c\":{\"a\\nb\":2}}", "{\"a\\u0062\":1,\"ab\":2}",
      "{\"x\":\"}\",\"y\":\"]\",\"z\":[\"{\",\"[\"]}", "[\"\\\\\",\"\\\\\\\"\",1]", "{\"a\":\"\\\\\",\"b\":2}", "[true,false,null,0,-0.0,1e5,\"s\"]",
      "{\"a\":[{\"b\":[{\"c\":1}]}]}", " [ 1 , 2 ] ", "{ \"a\" : { \"b\" : [ ] } , \"c\" : 3 }"};
  const size_t ns = sizeof shapes / sizeof *shapes;
  std::string body = shapes[i % ns];
  size_t pad = (i / ns) % 64;
  std::string fill((i / ns / 64) % 3 == 0 ? 0 : r.range(1, 200), ' ');
  // insert a long blank run at a random structural position
  std::string text = std::string(pad, ' ') + body;
  if (!fill.empty()) {
    size_t pos = text.find_first_of(",:[{", pad);
    if (pos != std::string::npos) text.insert(pos + 1, fill);
  }
  jm::RefResult ref = jm::ref_parse(text);
  if (!ref.ok) return;
  vf::witness(text);
  Exact buf(text);
  std::vector<Path> paths, bad;
  Path cur;
  all_paths(ref.v, cur, paths, 64);
  for (auto& p : paths) derived_paths(ref.v, p, r, bad);
  for (auto& p : paths) judge_pair(text, ref, p, buf);
  for (auto& p : bad) judge_pair(text, ref, p, buf);
  vf::distinct(vf::hash_str(text));
}

// ------------------------------------------------------------------ C11
static guard::Region* G;
static vf::Counter c11_calls("on-demand-calls-on-arbitrary-bytes"), c11_ok("result:success"), c11_err("result:error"), c11_end("placement:ends-on-last-mapped-byte"),
    c11_start("placement:starts-after-unmapped-page"), c11_heap("placement:exact-heap-block"), c11_lazy("UpdateLazy-calls"), c11_schema("ParseSchema-undeclared-skip-calls"),
    c11_len0("length:0"), c11_lenedge("length:block-edge(15-17,31-33,63-67,127-130)");

static void c11_one(const std::string& text, const JsonPointer& jp, const char* p, size_t n, const char* placement) {
  c11_calls.add();
  vf::eval();
  StringView target("sentinel");
  vf::note(placement);
  ParseResult res = GetOnDemand(StringView(p, n), jp, target);
  if (res.Error() == kErrorNone) {
    c11_ok.add();
    if (target.data() < p || target.data() + target.size() > p + n || target.size() > n)
      vf::violation("success-slice-outside-input", std::string(placement) + ": text=" + vf::printable(text, 120) + " slice size " + std::to_string(target.size()));
    if (res.Offset() > n) vf::violation("success-offset-beyond-length", std::string(placement) + ": offset " + std::to_string(res.Offset()) + " > " + std::to_string(n) + " text=" + vf::printable(text, 120));
  } else {
    c11_err.add();
    if (target.size() != 0) vf::violation("error-with-nonempty-slice", vf::printable(text, 120));
  }
}

static JsonPointer c11_path(vf::Rng& r) {
  JsonPointer jp;
  switch (r.below(8)) {
    case 0: break;
    case 1: jp.push_back(JsonPointerNode(std::string("a"))); break;
    case 2: jp.push_back(JsonPointerNode((int)r.below(4))); break;
    case 3: jp.push_back(JsonPointerNode(std::string("a"))); jp.push_back(JsonPointerNode((int)r.below(3))); break;
    case 4: jp.push_back(JsonPointerNode(-1)); break;
    case 5: jp.push_back(JsonPointerNode(std::string("a\nb\"c"))); break;  // forces the escaped-key decode buffer when the text has such a key
    case 6: jp.push_back(JsonPointerNode((int)r.below(3))); jp.push_back(JsonPointerNode(std::string("k"))); jp.push_back(JsonPointerNode(0)); break;
    default: jp.push_back(JsonPointerNode(std::string(""))); break;
  }
  return jp;
}

static void c11_input(const std::string& text, vf::Rng& r) {
  vf::witness(text);
  size_t n = text.size();
  vf::distinct(vf::hash_str(text));
  if (n == 0) c11_len0.add();
  if ((n >= 15 && n <= 17) || (n >= 31 && n <= 33) || (n >= 63 && n <= 67) || (n >= 127 && n <= 130)) c11_lenedge.add();
  for (int k = 0; k < 3; k++) {
    JsonPointer jp = c11_path(r);
#if VF_SANITIZER
    {
      Exact b(text);
      c11_heap.add();
      c11_one(text, jp, b.p, n, "exact-heap");
      if (k == 0) {
        su::PoolDoc d;
        vf::note("ParseOnDemand");
        d.ParseOnDemand(b.p, n, jp);
        if (!d.HasParseError()) (void)d.Dump();
      }
    }
#else
    {
      unsigned char* p = G->at_end(n, 0);
      memcpy(p, text.data(), n);
      c11_end.add();
      c11_one(text, jp, (const char*)p, n, "ends-on-last-mapped-byte");
      unsigned char* q = G->at_start(0);
      memcpy(q, text.data(), n);
      memset(q + n, "\"x ]"[r.below(4)], 80);  // bytes after the text must not matter either
      c11_start.add();
      c11_one(text, jp, (const char*)q, n, "starts-after-unmapped-page");
    }
#endif
  }
  // the same bytes through UpdateLazy (both roles) and through the undeclared-key skip of ParseSchema
  if (r.below(3) == 0) {
#if VF_SANITIZER
    Exact b(text);
    const char* p = b.p;
#else
    unsigned char* pp = G->at_end(n, 0);
    memcpy(pp, text.data(), n);
    const char* p = (const char*)pp;
#endif
    c11_lazy.add();
    vf::eval();
    vf::note("UpdateLazy");
    static const std::string other = "{\"a\":{\"b\":1},\"c\":[1,2]}";
    std::string o1 = UpdateLazy(StringView(p, n), StringView(other.data(), other.size()));
    std::string o2 = UpdateLazy(StringView(other.data(), other.size()), StringView(p, n));
    (void)o1;
    (void)o2;
    // ParseSchema skips the values of undeclared keys with the same scanner.  Only object-rooted texts are
    // fed (every key is undeclared, so every value goes through the skipper); what ParseSchema does with an
    // array text on an object document is C19's subject, not C11's.
    size_t fs = 0;
    while (fs < n && (p[fs] == ' ' || p[fs] == '\n' || p[fs] == '\t' || p[fs] == '\r')) fs++;
    if (fs < n && p[fs] == '{') {
      c11_schema.add();
      vf::note("ParseSchema");
      su::PoolDoc d;
      d.Parse("{\"declared\":1}", 14);
      d.ParseSchema(p, n);
      if (!d.HasParseError()) (void)d.Dump();
    }
  }
}

static std::string gen_text_for_mut(uint64_t seed, const char* stream, uint64_t idx) {
  vf::Rng r(seed, vf::hash_str(stream), idx);
  JVal v = gen_hazard_doc(r);
  jm::RenderOpts ro;
  ro.ws_percent = (unsigned)r.pick(std::vector<unsigned>{0, 10, 40});
  return jm::render(v, r, ro);
}

#ifndef VF_FUZZ_TARGET
int main(int argc, char** argv) {
  for (int i = 1; i + 1 < argc; i++)
    if (std::string(argv[i]) == "--prop") g_prop = argv[i + 1];
  uint64_t seed = 1;
  if (const char* e = getenv("VERIF_SEED")) seed = strtoull(e, nullptr, 10);
  for (int i = 1; i + 1 < argc; i++)
    if (std::string(argv[i]) == "--seed") seed = strtoull(argv[i + 1], nullptr, 10);
  static guard::Region region(80);
  G = &region;
  std::vector<vf::Stream> S;
  if (g_prop == "C10") {
    S.push_back({"handbuilt_shapes", 20 * 64 * 3, 20 * 64 * 3, c10_shapes, false});
    S.push_back({"generated_docs_x_paths", 1500, 150000, c10_case});
  } else {
    S.push_back({"bytes_le2", 258, 258, [](uint64_t i, vf::Rng& r) {
                   if (i == 0) {
                     c11_input("", r);
                     for (int a = 0; a < 256; a++) c11_input(std::string(1, (char)a), r);
                     return;
                   }
                   if (i == 257) return;
                   for (int b = 0; b < 256; b++) {
                     std::string t;
                     t += (char)(i - 1);
                     t += (char)b;
                     c11_input(t, r);
                   }
                 }, false});
    S.push_back({"all_prefixes", 250, 20000, [seed](uint64_t i, vf::Rng& r) {
                   std::string t = gen_text_for_mut(seed, "c11prefix", i);
                   if (t.size() > 400) t.resize(400);
                   for (size_t n = 0; n <= t.size(); n++) c11_input(t.substr(0, n), r);
                 }});
    S.push_back({"mutations", 20000, 2000000, [seed](uint64_t i, vf::Rng& r) {
                   std::string t = gen_text_for_mut(seed, "c11mut", i / 8);
                   int k = (int)r.range(1, 3);
                   for (int j = 0; j < k; j++) t = jm::mutate(t, r);
                   c11_input(t, r);
                 }});
    // truncated literals and tokens exactly at the end of the buffer, at block-edge lengths
    S.push_back({"truncated_tokens_at_block_edges", 3000, 100000, [](uint64_t, vf::Rng& r) {
                   static const size_t lens[] = {0, 1, 2, 3, 4, 5, 15, 16, 17, 31, 32, 33, 63, 64, 65, 66, 67, 127, 128, 129, 130};
                   size_t n = lens[r.below(sizeof lens / sizeof *lens)];
                   static const char* tails[] = {"t", "tr", "tru", "true", "f", "fa", "fal", "fals", "false", "n", "nu", "nul", "null", "\"", "\"a", "\"a\\", "\"\\u12",
                                                 "[", "{", "{\"a\"", "{\"a\":", "[1,", "-", "1e", "1.", "\\", "]", "}", ",", ":"};
                   std::string tail = tails[r.below(sizeof tails / sizeof *tails)];
                   std::string head;
                   switch (r.below(4)) {
                     case 0: head = "["; break;
                     case 1: head = "{\"a\":"; break;
                     case 2: head = "[[1,2],"; break;
                     default: head = "{\"a\\nb\\\"c\":[0,"; break;
                   }
                   std::string t = head;
                   while (t.size() + tail.size() < n) t += (r.below(5) == 0 ? "1," : " ");
                   t += tail;
                   if (n && t.size() > n && r.coin()) t = t.substr(t.size() - n);
                   c11_input(t, r);
                 }});
    S.push_back({"hostile_shapes", 2000, 100000, [](uint64_t, vf::Rng& r) { c11_input(jm::hostile_text(r, r.below(20) == 0 ? 5000 : 200), r); }});
    // blank runs that straddle the 64-byte cache of the space skipper, ending near the end of input
    S.push_back({"blank_runs_near_end", 3000, 100000, [](uint64_t, vf::Rng& r) {
                   std::string t = "{\"a\"" + std::string(r.range(0, 3), ' ') + ":";
                   t += std::string(r.range(0, 140), r.coin() ? ' ' : '\n');
                   t += r.coin() ? "1" : "[1, 2]";
                   t += std::string(r.range(0, 70), ' ');
                   if (r.coin()) t += "}";
                   t += std::string(r.range(0, 70), ' ');
                   c11_input(t, r);
                 }});
  }
  return vf::run(argc, argv, S);
}
#endif  // VF_FUZZ_TARGET
