// kernel_harness.cpp -- C09 (string quoting) and C14 (key comparison / member lookup).
//   --prop C09 | C14
// Production builds: operands live in guard-page regions (ending on the last mapped byte, or a few
// bytes before it, or starting right after an unmapped page); a fault is caught and attributed to
// the case in flight.  Sanitizer builds: operands are exact-size heap blocks.
#include "common/guard.h"
#include "common/jmodel.h"
#include "common/sonic_util.h"
#include "common/vf.h"
#include "sonic/internal/arch/simd_quote.h"

using namespace sonic_json;
static std::string g_prop = "C09";

// ------------------------------------------------------------------ operand placement
static guard::Region* R1;  // source / operand a
static guard::Region* R2;  // destination / operand b
static guard::Region* R3;  // query keys

struct Placed {
  unsigned char* p = nullptr;
  bool heap = false;
  ~Placed() {
    if (heap) free(p);
  }
};
// place n bytes so that they end `gap` bytes before unmapped memory (prod) / in an exact heap block (sanitizer)
static unsigned char* place_end(Placed& pl, guard::Region* r, const void* data, size_t n, size_t gap, int gapfill = -1) {
#if VF_SANITIZER
  (void)r;
  (void)gap;
  (void)gapfill;
  pl.p = (unsigned char*)malloc(n ? n : 1);
  pl.heap = true;
  if (n) memcpy(pl.p, data, n);
  return pl.p;
#else
  unsigned char* p = r->at_end(n, gap);
  if (gapfill >= 0 && gap) memset(r->hi() - gap, gapfill, gap);
  if (n) memcpy(p, data, n);
  pl.p = p;
  return p;
#endif
}
static unsigned char* place_start(Placed& pl, guard::Region* r, const void* data, size_t n, size_t off) {
#if VF_SANITIZER
  (void)r;
  (void)off;
  pl.p = (unsigned char*)malloc(n ? n : 1);
  pl.heap = true;
  if (n) memcpy(pl.p, data, n);
  return pl.p;
#else
  unsigned char* p = r->at_start(off);
  if (n) memcpy(p, data, n);
  pl.p = p;
  return p;
#endif
}

// ------------------------------------------------------------------ C09 oracle
static bool is_special(unsigned char c) { return c == '"' || c == '\\' || c < 0x20; }
// out must be '"' + units + '"', one unit per input byte
static std::string check_quoted(const unsigned char* in, size_t n, const char* out, size_t m) {
  if (m < 2 || out[0] != '"' || out[m - 1] != '"') return "output is not delimited by quotes";
  if (m > 6 * n + 2) return "output longer than 6n+2";
  size_t j = 1;
  for (size_t i = 0; i < n; i++) {
    unsigned char c = in[i];
    if (j >= m - 1) return "output ends before input byte " + std::to_string(i);
    if (!is_special(c)) {
      if ((unsigned char)out[j] != c) return "input byte " + std::to_string(i) + " (0x" + vf::hex(&c, 1) + ") not copied verbatim";
      j++;
      continue;
    }
    if (out[j] != '\\') return "special input byte " + std::to_string(i) + " (0x" + vf::hex(&c, 1) + ") emitted without escape";
    if (j + 1 >= m - 1) return "truncated escape";
    char e = out[j + 1];
    char want = 0;
    switch (c) {
      case '"': want = '"'; break;
      case '\\': want = '\\'; break;
      case '\b': want = 'b'; break;
      case '\f': want = 'f'; break;
      case '\n': want = 'n'; break;
      case '\r': want = 'r'; break;
      case '\t': want = 't'; break;
    }
    if (want && e == want) {
      j += 2;
      continue;
    }
    if (e == 'u' && j + 5 < m) {
      unsigned v = 0;
      bool ok = true;
      for (int k = 2; k < 6; k++) {
        int h = jm::hexval((unsigned char)out[j + k]);
        if (h < 0) ok = false;
        v = v * 16 + (unsigned)h;
      }
      if (ok && v == c) {
        j += 6;
        continue;
      }
    }
    return "wrong escape for input byte " + std::to_string(i) + " (0x" + vf::hex(&c, 1) + "): " + vf::printable(std::string(out + j, std::min<size_t>(6, m - j)));
  }
  if (j != m - 1) return "output has " + std::to_string(m - 1 - j) + " extra bytes before the closing quote";
  return "";
}

static vf::Counter c_q("quote-calls"), c_q_api("quote-via-node-serialize"), c_q_gap0("placement:ends-on-last-mapped-byte"),
    c_q_gapn("placement:ends-1..130-bytes-before-unmapped"), c_q_heap("placement:exact-heap-block"), c_q_meta("metamorphic-pairs(bytes beyond the string differ)"),
    c_q_esc_tail("content:escape-in-sub-vector-tail-followed-by-bytes");

static std::string sig_of(const unsigned char* s, size_t n) {
  // structural signature for violation keys: length class + which special classes occur
  std::string k = n == 0 ? "len0" : n < 16 ? "len<16" : n < 32 ? "len<32" : n < 64 ? "len<64" : "len>=64";
  bool q = false, b = false, c = false, h = false;
  for (size_t i = 0; i < n; i++) {
    if (s[i] == '"') q = true;
    else if (s[i] == '\\') b = true;
    else if (s[i] < 0x20) c = true;
    else if (s[i] >= 0x80) h = true;
  }
  return k + (q ? "+quote" : "") + (b ? "+backslash" : "") + (c ? "+ctl" : "") + (h ? "+high" : "");
}

// one Quote call in a given placement; returns the output
static std::string quote_placed(const std::string& s, size_t gap, int gapfill) {
  size_t n = s.size();
  Placed ps, pd;
  const char* src = (const char*)place_end(ps, R1, s.data(), n, gap, gapfill);
  size_t cap = 6 * n + 32 + 3;  // what the serializer reserves
  std::string zero(cap, '\xee');
  char* dst = (char*)place_end(pd, R2, zero.data(), cap, 0);
  vf::witness(s);
  c_q.add();
  vf::eval();
#if VF_SANITIZER
  c_q_heap.add();
#else
  if (gap == 0) c_q_gap0.add(); else c_q_gapn.add();
#endif
  vf::note("internal::Quote");
  char* end = internal::Quote(src, n, dst);
  size_t m = end - dst;
  if (m > cap) {
    vf::violation("quote-length-beyond-contract:" + sig_of((const unsigned char*)s.data(), n), "returned length " + std::to_string(m));
    return "";
  }
  std::string out(dst, m);
  std::string err = check_quoted((const unsigned char*)s.data(), n, out.data(), m);
  if (!err.empty())
    vf::violation("quote-output:" + sig_of((const unsigned char*)s.data(), n),
                  err + "; input=" + vf::printable(s, 150) + " output=" + vf::printable(out, 200) + " gap=" + std::to_string(gap));
  return out;
}

static void quote_case(const std::string& s, vf::Rng& r, bool sweep_gaps) {
  vf::distinct(vf::hash_str(s));
  std::string base = quote_placed(s, 0, -1);
#if !VF_SANITIZER
  if (sweep_gaps) {
    static const int fills[] = {'"', 'a', 0x00, '\\', 0x01};
    for (size_t gap : {1, 2, 15, 16, 17, 31, 32, 33, 47, 48, 63, 64, 65, 96, 127, 128}) {
      int f = fills[r.below(5)];
      std::string o = quote_placed(s, gap, f);
      c_q_meta.add();
      if (o != base && !o.empty() && !base.empty())
        vf::violation("quote-depends-on-bytes-beyond:" + sig_of((const unsigned char*)s.data(), s.size()),
                      "output differs when the " + std::to_string(gap) + " bytes after the string are 0x" + vf::hex(&f, 1) + ": " +
                          vf::printable(o, 120) + " vs " + vf::printable(base, 120));
    }
  }
#else
  (void)sweep_gaps;
  (void)r;
#endif
}

// through the public API: SetString(ptr,len) (no copy) + Serialize
static void quote_api_case(const std::string& s, size_t gap) {
  Placed ps;
  const char* src = (const char*)place_end(ps, R1, s.data(), s.size(), gap, 'a');
  c_q_api.add();
  vf::eval();
  vf::witness(s);
  su::PoolDoc d;
  d.SetArray();
  su::PoolNode n;
  n.SetString(src, s.size());
  d.PushBack(std::move(n), d.GetAllocator());
  d.PushBack(su::PoolNode(src, s.size()), d.GetAllocator());
  WriteBuffer wb;
  vf::note("SetString+Serialize");
  SonicError e = d.Serialize(wb);
  if (e != kErrorNone) {
    vf::violation("api-serialize-error", "Serialize returned " + std::to_string((int)e));
    return;
  }
  std::string out(wb.ToString(), wb.Size());
  // [ "..." , "..." ]
  if (out.size() < 2 || out[0] != '[' || out.back() != ']' || (out.size() - 3) % 2 != 0) {
    vf::violation("api-shape", vf::printable(out));
    return;
  }
  size_t m = (out.size() - 3) / 2;
  std::string a = out.substr(1, m), b = out.substr(2 + m, m);
  std::string err = check_quoted((const unsigned char*)s.data(), s.size(), a.data(), a.size());
  if (err.empty() && a != b) err = "two serialisations of the same string differ";
  if (err.empty() && out[1 + m] != ',') err = "missing comma";
  if (!err.empty()) vf::violation("api-quote-output:" + sig_of((const unsigned char*)s.data(), s.size()), err + "; output=" + vf::printable(out, 200));
  jm::RefResult rr = jm::ref_parse(out);
  if (!rr.ok || rr.v.k != jm::JVal::Arr || rr.v.a.size() != 2 || rr.v.a[0].s != s)
    vf::violation("api-roundtrip:" + sig_of((const unsigned char*)s.data(), s.size()), "serialised string does not decode to the input bytes: " + vf::printable(out, 200));
}

// a string that expands ~6x written when the buffer already holds other output (the reserve for the string is computed
// from the current fill level): through the node API, checked by the same alignment oracle
static vf::Counter c_q_prefix("quote-after-prefix-in-partly-filled-buffer");
static void quote_after_prefix_case(vf::Rng& r) {
  size_t m = r.range(0, 120), n = r.range(0, 400);
  std::string s(n, 0);
  unsigned dens = (unsigned)r.pick(std::vector<unsigned>{100, 100, 95, 60});
  for (auto& c : s) c = r.below(100) < dens ? (char)(1 + r.below(7)) : 'q';
  c_q_prefix.add();
  vf::eval();
  vf::witness(s);
  vf::distinct(vf::hash_combine(vf::hash_str(s), m));
  su::PoolDoc d;
  d.SetArray();
  su::PoolNode inner;
  inner.SetArray();
  for (size_t k = 0; k < m; k++) inner.PushBack(su::PoolNode(false), d.GetAllocator());
  d.PushBack(std::move(inner), d.GetAllocator());
  d.PushBack(su::PoolNode(s.data(), s.size()), d.GetAllocator());
  WriteBuffer wb(r.coin() ? 256 : r.range(0, 600));
  vf::note("Serialize([prefix, expanding string])");
  SonicError e = d.Serialize(wb);
  if (e != kErrorNone) { vf::violation("api-serialize-error", "Serialize returned " + std::to_string((int)e)); return; }
  std::string out(wb.ToString(), wb.Size());
  jm::RefResult rr = jm::ref_parse(out);
  if (!rr.ok || rr.v.k != jm::JVal::Arr || rr.v.a.size() != 2 || rr.v.a[1].k != jm::JVal::Str || rr.v.a[1].s != s || rr.v.a[0].a.size() != m)
    vf::violation("api-roundtrip:after-prefix:" + sig_of((const unsigned char*)s.data(), s.size()), "output does not decode to the input: " + vf::printable(out, 200));
}

// a short string reached by Serialize with every remaining capacity 0..80 of the caller's write buffer: the reservation in
// front of Quote() has to cover the kernel's widest store
static vf::Counter c_q_rem("quote:short-string-at-every-remaining-capacity");
static void quote_at_remaining_capacity_case(uint64_t i, vf::Rng& r) {
  static const char* strs[] = {"a", "ab", "abc", "\x01", "\x01" "a", "\x01\x02" "ab", "\"", "0123456789012345678901234567890", "01234567890123456789012345678901", "012345678901234567890123456789012",
                               "\x01\x02\x03\x04\x05\x06" "xy", ""};
  // 20-digit numbers in front: 21 bytes per element, more than the 18 bytes per node that Serialize reserves up front, so
  // that from about 30 elements on the caller's capacity decides how much room is left when the string is reached
  size_t m = 30 + (size_t)(i % 6) * 9;
  su::PoolDoc d;
  d.SetArray();
  for (size_t k = 0; k < m; k++) d.PushBack(su::PoolNode((uint64_t)UINT64_MAX - k), d.GetAllocator());
  size_t prefix_len = 1 + m * 21;  // [ 18446744073709551615, ...
  for (const char* cs : strs) {
    std::string str(cs);
    d.PushBack(su::PoolNode(str.data(), str.size(), d.GetAllocator()), d.GetAllocator());
    for (size_t rem = 0; rem <= 80; rem++) {
      c_q_rem.add();
      vf::eval();
      WriteBuffer wb(prefix_len + rem);
      vf::note("Serialize([numbers..., short string]) into a sized WriteBuffer");
      SonicError e = d.Serialize(wb);
      if (e != kErrorNone) { vf::violation("api-serialize-error", "Serialize returned " + std::to_string((int)e)); return; }
      std::string out(wb.ToString(), wb.Size());
      jm::RefResult rr = jm::ref_parse(out);
      if (!rr.ok || rr.v.k != jm::JVal::Arr || rr.v.a.size() != m + 1 || rr.v.a[m].k != jm::JVal::Str || rr.v.a[m].s != str)
        vf::violation("api-roundtrip:at-remaining-capacity:" + sig_of((const unsigned char*)str.data(), str.size()), "remaining " + std::to_string(rem) + ": " + vf::printable(out, 200));
    }
    d.PopBack();
  }
  vf::witness("[" + std::to_string(m) + " x 20-digit number, short string] into WriteBuffer(prefix+0..80)");
  vf::distinct_enum(12 * 81);
  (void)r;
}

static void audit_quote_tables() {
  for (int b = 0; b < 256; b++) {
    vf::eval();
    unsigned char c = (unsigned char)b;
    bool need = is_special(c);
    if (internal::kNeedEscaped[b] != need) vf::violation("table-audit:kNeedEscaped", "entry " + std::to_string(b));
    const auto& q = internal::kQuoteTab[b];
    if (need) {
      std::string s = "\"" + std::string(q.s, strnlen(q.s, 8)) + "\"";
      std::string err = (size_t)q.n != strnlen(q.s, 8) ? "n != strlen(s)" : check_quoted(&c, 1, s.data(), s.size());
      if (!err.empty()) vf::violation("table-audit:kQuoteTab", "entry " + std::to_string(b) + ": " + err);
    }
    vf::count("audit:quote-table-entries");
  }
  vf::distinct_enum(256);
}

// ------------------------------------------------------------------ C14
static vf::Counter c_cmp("memcmp-kernel-pairs"), c_cmp_eq("pairs:equal"), c_cmp_ne("pairs:different"), c_cmp_pe("placement:an-operand-ends-on-last-mapped-byte"),
    c_cmp_4065("placement:31-byte-operand-at-page-offset-4065-vs-page-start"), c_find("findmember-queries"), c_find_map("findmember-queries-with-map"),
    c_find_hit("lookup:hit"), c_find_miss("lookup:miss"), c_cmp_meta("metamorphic(bytes outside the ranges differ)"), c_find_ptr("lookup:through-JsonPointer-and-JsonPointerView"), c_find_null("lookup:empty-name-through-a-view-without-buffer");

static int sgn(int x) { return (x > 0) - (x < 0); }

#if defined(SONIC_STATIC_DISPATCH)
static void cmp_pair(const unsigned char* a, const unsigned char* b, size_t n, const char* where) {
  c_cmp.add();
  vf::eval();
  int ref = memcmp(a, b, n);
  vf::note("InlinedMemcmpEq/InlinedMemcmp");
  bool eq = internal::InlinedMemcmpEq(a, b, n);
  int c3 = internal::InlinedMemcmp(a, b, n);
  if (ref == 0) c_cmp_eq.add(); else c_cmp_ne.add();
  if (eq != (ref == 0)) {
    size_t d = 0;
    while (d < n && a[d] == b[d]) d++;
    vf::violation(std::string("memcmpeq-mismatch:") + (n < 32 ? "len<32" : n % 32 == 0 ? "len%32==0" : "len>=32"),
                  std::string(where) + ": InlinedMemcmpEq says " + (eq ? "equal" : "different") + " for length " + std::to_string(n) +
                      ", first difference at " + (d == n ? std::string("none") : std::to_string(d)) + ", a@" + std::to_string((uintptr_t)a & 4095) + " b@" +
                      std::to_string((uintptr_t)b & 4095));
  }
  if (sgn(c3) != sgn(ref))
    vf::violation(std::string("memcmp3-sign:") + (n < 32 ? "len<32" : "len>=32"),
                  std::string(where) + ": InlinedMemcmp sign " + std::to_string(sgn(c3)) + " vs memcmp " + std::to_string(sgn(ref)) + " length " + std::to_string(n));
}
#else
static void cmp_pair(const unsigned char*, const unsigned char*, size_t, const char*) {}
#endif

// mismatch positions worth trying for length n
static std::vector<long> mismatch_positions(size_t n, vf::Rng& r) {
  std::vector<long> v{-1};
  if (n == 0) return v;
  v.push_back(0);
  v.push_back((long)n - 1);
  for (long b : {15, 16, 17, 31, 32, 33, 47, 48, 63, 64, 65, 95, 96, 97})
    if (b < (long)n) v.push_back(b);
  if (n >= 33) {
    // the window [(n & ~31) - 32, n - 32) is covered by no full-block load when n % 32 != 0
    long lo = (long)(n & ~31UL) - 32, hi = (long)n - 32;
    for (long p = lo; p < hi; p++) v.push_back(p);
  }
  v.push_back((long)r.below(n));
  return v;
}

static void kernel_pairs(size_t n, vf::Rng& r) {
  std::string base(n, 0);
  int zmode = (int)r.below(3);  // 0: no NUL bytes, 1: some, 2: mostly NUL (implicit-length string instructions stop at NUL)
  for (auto& ch : base) ch = zmode == 0 ? (char)r.range(1, 255) : zmode == 1 ? (char)(r.below(6) ? r.range(1, 255) : 0) : (char)(r.below(4) ? 0 : r.range(1, 255));
  auto positions = mismatch_positions(n, r);
  {
    std::string w = "InlinedMemcmpEq/InlinedMemcmp, length " + std::to_string(n) + ", first-difference positions {";
    for (long mp : positions) w += std::to_string(mp) + ",";
    w += "} (-1 = equal) x operand placements (a ends 0..64 bytes before an unmapped page; b starts 0..100 bytes after one / ends 0..64 before one)";
    vf::witness(w);
  }
#if VF_SANITIZER
  static const size_t gaps_a[] = {0};
  static const size_t offs_b[] = {0};
#else
  static const size_t gaps_a[] = {0, 1, 2, 7, 8, 15, 16, 17, 30, 31, 32, 33, 40, 64};
  static const size_t offs_b[] = {0, 1, 2, 8, 15, 16, 17, 31, 32, 33, 100};
#endif
  for (long mp : positions) {
    std::string other = base;
    if (mp >= 0) other[mp] = (char)((unsigned char)other[mp] ^ (1u << r.below(8)));
    if (mp >= 0 && other[mp] == base[mp]) other[mp] ^= 1;
    for (size_t ga : gaps_a) {
      Placed pa;
      unsigned char* a = place_end(pa, R1, base.data(), n, ga, (int)r.below(256));
      // b at the start of a region (right after an unmapped page), at several offsets
      for (size_t ob : offs_b) {
        Placed pb;
        unsigned char* b = place_start(pb, R2, other.data(), n, ob);
#if !VF_SANITIZER
        if (ga == 0) c_cmp_pe.add();
        if (n == 31 && ga == 0 && ob == 0) c_cmp_4065.add();
        // bytes just outside the ranges must not matter
        if (ob) memset(R2->lo(), (int)r.below(256), ob);
        memset(b + n, (int)r.below(256), 64);
#endif
        cmp_pair(a, b, n, "a ends near page end, b after page start");
        cmp_pair(b, a, n, "swapped");
      }
      // b also ending near the end of its region
      for (size_t gb : gaps_a) {
        if (gb > 33 && ga > 33) continue;
        Placed pb;
        unsigned char* b = place_end(pb, R2, other.data(), n, gb, (int)r.below(256));
#if !VF_SANITIZER
        if (ga == 0 || gb == 0) c_cmp_pe.add();
#endif
        cmp_pair(a, b, n, "both near page end");
      }
    }
  }
  vf::distinct_enum(positions.size());
}

// FindMember / HasMember / operator[] against a byte-wise model, keys of every length, near-miss queries
template <class NodeT, class Alloc>
static void lookup_case(size_t klen, vf::Rng& r, Alloc& alloc, bool with_map, bool const_keys) {
  // members: a family of keys of length klen that differ from each other in one byte, plus prefixes/extensions
  std::string k0(klen, 0);
  for (auto& ch : k0) ch = (char)r.range(0, 255);
  std::vector<std::string> keys{k0};
  for (int i = 0; i < 6 && klen; i++) {
    std::string k = k0;
    size_t p = i == 0 ? 0 : i == 1 ? klen - 1 : r.below(klen);
    if (klen >= 33 && i >= 2 && i < 5) {
      size_t lo = (klen & ~31UL) - 32, hi = klen - 32;
      if (hi > lo) p = lo + r.below(hi - lo);
    }
    k[p] ^= (char)(1u << r.below(8));
    keys.push_back(k);
  }
  if (klen) keys.push_back(k0.substr(0, klen - 1));
  keys.push_back(k0 + "x");
  // dedupe
  std::vector<std::string> uniq;
  for (auto& k : keys)
    if (std::find(uniq.begin(), uniq.end(), k) == uniq.end()) uniq.push_back(k);
  size_t present = uniq.size() - (uniq.size() > 2 ? 2 : 0);  // the last few are queries only (misses)
  NodeT obj;
  obj.SetObject();
  // key storage for const keys must outlive obj: keep in R3-like stable heap
  std::vector<std::unique_ptr<char[]>> store;
  for (size_t i = 0; i < present; i++) {
    const std::string& k = uniq[i];
    NodeT v((uint64_t)i);
    if (const_keys) {
      store.emplace_back(new char[k.size() ? k.size() : 1]);
      memcpy(store.back().get(), k.data(), k.size());
      obj.AddMember(StringView(store.back().get(), k.size()), std::move(v), alloc, false);
    } else {
      obj.AddMember(StringView(k.data(), k.size()), std::move(v), alloc, true);
    }
  }
  if (with_map) obj.CreateMap(alloc);
  for (size_t qi = 0; qi < uniq.size(); qi++) {
    const std::string& q = uniq[qi];
    long want = qi < present ? (long)qi : -1;
    for (size_t gap : {(size_t)0, (size_t)r.range(1, 40)}) {
      Placed pq;
      const char* qp = (const char*)place_end(pq, R3, q.data(), q.size(), gap, (int)r.below(256));
      c_find.add();
      if (with_map) c_find_map.add();
      if (want >= 0) c_find_hit.add(); else c_find_miss.add();
      vf::eval();
      vf::witness(q);
      vf::note("FindMember/HasMember/operator[]");
      auto it1 = obj.FindMember(StringView(qp, q.size()));
      auto it2 = obj.FindMember(qp, q.size());
      long got1 = it1 == obj.MemberEnd() ? -1 : (long)(it1 - obj.MemberBegin());
      long got2 = it2 == obj.MemberEnd() ? -1 : (long)(it2 - obj.MemberBegin());
      bool has = obj.HasMember(StringView(qp, q.size()));
      const NodeT& viaidx = static_cast<const NodeT&>(obj)[StringView(qp, q.size())];
      std::string cls = std::string(with_map ? "map" : "linear") + (q.size() < 32 ? ":len<32" : q.size() % 32 == 0 ? ":len%32==0" : ":len>=32");
      if (got1 != want) vf::violation("findmember-view:" + cls, "FindMember(view) returned member " + std::to_string(got1) + ", model says " + std::to_string(want) + " key length " + std::to_string(q.size()));
      if (got2 != want) vf::violation("findmember-ptrlen:" + cls, "FindMember(ptr,len) returned member " + std::to_string(got2) + ", model says " + std::to_string(want) + " key length " + std::to_string(q.size()));
      if (has != (want >= 0)) vf::violation("hasmember:" + cls, "HasMember wrong");
      if (want >= 0 ? !(viaidx.IsUint64() && viaidx.GetUint64() == (uint64_t)want) : !viaidx.IsNull())
        vf::violation("operator[]:" + cls, "operator[] returned the wrong value");
    }
  }
  // the same members through a JSON pointer whose token is a std::string (any bytes, NUL included) or a view
  for (size_t qi = 0; qi < uniq.size(); qi++) {
    const std::string& q = uniq[qi];
    long want = qi < present ? (long)qi : -1;
    c_find_ptr.add();
    vf::eval();
    JsonPointer jp;
    jp.push_back(JsonPointerNode(q));
    JsonPointerView jv;
    jv.push_back(JsonPointerView::JsonPointerNodeType(StringView(q.data(), q.size())));
    const NodeT* a = static_cast<const NodeT&>(obj).AtPointer(jp);
    const NodeT* b = static_cast<const NodeT&>(obj).AtPointer(jv);
    const NodeT* w = want >= 0 ? &((obj.MemberBegin() + want)->value) : nullptr;
    if (a != w) vf::violation(std::string("atpointer-string-token:") + (with_map ? "map" : "linear"), "key length " + std::to_string(q.size()) + " (model member " + std::to_string(want) + ")");
    if (b != w) vf::violation(std::string("atpointer-view-token:") + (with_map ? "map" : "linear"), "key length " + std::to_string(q.size()) + " (model member " + std::to_string(want) + ")");
  }
  // the empty name looked up through a view without a buffer
  if (klen == 0) {
    c_find_null.add();
    long want0 = -1;
    for (size_t qi = 0; qi < present; qi++) if (uniq[qi].empty()) want0 = (long)qi;
    StringView nul;
    auto it = static_cast<const NodeT&>(obj).FindMember(nul);
    long got = it == obj.MemberEnd() ? -1 : (long)(it - obj.MemberBegin());
    bool has = obj.HasMember(nul);
    if (got != want0 || has != (want0 >= 0)) vf::violation(std::string("findmember-null-view:") + (with_map ? "map" : "linear"), "FindMember(StringView{}) returned " + std::to_string(got) + ", model says " + std::to_string(want0));
  }
  vf::distinct(vf::hash_combine(vf::hash_str(k0), (with_map ? 2 : 0) + (const_keys ? 1 : 0)));
}

int main(int argc, char** argv) {
  for (int i = 1; i + 1 < argc; i++)
    if (std::string(argv[i]) == "--prop") g_prop = argv[i + 1];
  R1 = new guard::Region(4);
  R2 = new guard::Region(4);
  R3 = new guard::Region(2);
  std::vector<vf::Stream> S;
  static const size_t kLens[] = {0, 1, 15, 16, 17, 31, 32, 33, 63, 64, 65, 130};
  if (g_prop == "C09") {
    S.push_back({"table_audit", 1, 1, [](uint64_t, vf::Rng&) { audit_quote_tables(); }, false});
    // one special byte (all 256 values) at every position of strings of 12 lengths
    S.push_back({"every_byte_every_position", 256 * 12, 256 * 12, [](uint64_t i, vf::Rng& r) {
                   unsigned char b = (unsigned char)(i % 256);
                   size_t n = kLens[i / 256];
                   char filler = (char)("az09 ~\x7f\x80\xff"[r.below(9)]);
                   if (n == 0) {
                     quote_case("", r, false);
                     return;
                   }
                   for (size_t pos = 0; pos < n && pos < 96; pos++) {
                     std::string s(n, filler);
                     s[pos] = (char)b;
                     quote_case(s, r, false);
                   }
                 }, false});
    S.push_back({"dense_and_random", 6000, 600000, [](uint64_t, vf::Rng& r) {
                   size_t n = r.below(4) == 0 ? r.range(0, 300) : r.range(0, 70);
                   std::string s(n, 0);
                   int mode = (int)r.below(5);
                   for (auto& ch : s) {
                     switch (mode) {
                       case 0: ch = (char)r.below(256); break;
                       case 1: ch = (char)r.below(0x20); break;
                       case 2: ch = "\"\\"[r.below(2)]; break;
                       case 3: ch = r.below(4) ? (char)r.range(0x20, 0x7e) : (char)("\"\\\n\t\x01\x1f\b\f\r"[r.below(9)]); break;
                       default: ch = r.below(8) ? 'x' : (char)r.below(0x20); break;
                     }
                   }
                   quote_case(s, r, r.below(8) == 0);
                   if (r.below(4) == 0) quote_api_case(s, r.below(3) ? 0 : r.range(1, 70));
                 }});
    S.push_back({"expanding_string_after_prefix", 4000, 200000, [](uint64_t, vf::Rng& r) { quote_after_prefix_case(r); }});
    S.push_back({"short_string_at_every_remaining_capacity", 6, 6, quote_at_remaining_capacity_case, false});
    // source address sweep: every length 0..200, strings ending 0..130 bytes before unmapped memory, escapes in the tail
    S.push_back({"page_end_sweep", 201, 201 * 20, [](uint64_t i, vf::Rng& r) {
                   size_t n = i % 201;
                   for (int content = 0; content < 5; content++) {
                     std::string s(n, 'a');
                     if (n) switch (content) {
                         case 0: break;                                   // no escapes
                         case 1: s[n - 1] = '"'; break;                    // escape is the last byte
                         case 2: {                                         // escape inside the sub-vector tail, followed by more bytes
                           size_t tail = n % 32 ? n % 32 : std::min<size_t>(n, 32);
                           size_t p = n - tail + r.below(tail);
                           s[p] = "\"\\\n\x01"[r.below(4)];
                           if (p + 1 < n) c_q_esc_tail.add();
                           if (r.coin() && p + 2 < n) s[p + 2] = '\\';
                           break;
                         }
                         case 3: for (auto& ch : s) ch = r.below(6) ? 'b' : "\"\\\x02\t"[r.below(4)]; break;
                         default: for (auto& ch : s) ch = (char)r.below(256); break;
                       }
                     vf::distinct(vf::hash_str(s));
#if VF_SANITIZER
                     quote_placed(s, 0, -1);
#else
                     std::string base = quote_placed(s, 0, -1);
                     for (size_t gap = 1; gap <= 130; gap++) {
                       if (gap > 70 && gap % 7) continue;
                       std::string o = quote_placed(s, gap, "\"a\\\x00"[gap % 4]);
                       c_q_meta.add();
                       if (o != base && !o.empty() && !base.empty())
                         vf::violation("quote-depends-on-bytes-beyond:" + sig_of((const unsigned char*)s.data(), n), "gap " + std::to_string(gap));
                     }
#endif
                     quote_api_case(s, content % 2 ? 0 : r.range(0, 64));
                   }
                 }, false});
  } else {
    // C14 kernels: every length 0..130 (thorough: ..1100)
    S.push_back({"kernel_all_lengths", 131, 1101, [](uint64_t i, vf::Rng& r) { kernel_pairs(i, r); }, false});
    S.push_back({"kernel_random_pairs", 3000, 200000000, [](uint64_t, vf::Rng& r) {
                   size_t n = r.below(16) ? r.range(0, 200) : r.range(200, 5000);
                   std::string a(n, 0), b;
                   for (auto& ch : a) ch = (char)r.below(r.coin() ? 256 : 2);
                   b = a;
                   int k = (int)r.below(3);
                   for (int j = 0; j < k && n; j++) b[r.below(n)] = (char)r.below(256);
                   Placed pa, pb;
                   unsigned char* pa_ = place_end(pa, R1, a.data(), n, r.below(3) ? 0 : r.below(64), (int)r.below(256));
                   unsigned char* pb_ = r.coin() ? place_end(pb, R2, b.data(), n, r.below(3) ? 0 : r.below(64), (int)r.below(256))
                                                 : place_start(pb, R2, b.data(), n, r.below(40));
                   vf::distinct(vf::hash_combine(vf::hash_str(a), vf::hash_str(b)));
                   cmp_pair(pa_, pb_, n, "random");
                 }});
    S.push_back({"lookup_all_key_lengths", 131 * 4, 521 * 4 * 200, [](uint64_t i, vf::Rng& r) {
                   size_t klen = (i / 4) % 521;
                   bool with_map = i & 1, const_keys = i & 2;
                   {
                     su::PoolDoc d;
                     lookup_case<su::PoolNode>(klen, r, d.GetAllocator(), with_map, const_keys);
                   }
                   if ((i & 7) == 0) {
                     sonic_json::SimpleAllocator a;
                     lookup_case<su::SimpleNode>(klen, r, a, with_map, const_keys);
                   }
                 }, false});
  }
  return vf::run(argc, argv, S);
}
