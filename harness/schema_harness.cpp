// schema_harness.cpp -- C19: ParseSchema updates exactly the members the existing document declares.
// Oracle: the merge the property statement defines, clause by clause, on JVal trees; plus ASan and a ledger
// allocator for "never corrupts memory".
#include <functional>

#include "common/jmodel.h"
#include "common/sonic_util.h"
#include "common/vf.h"

using jm::JVal;
using namespace sonic_json;
static std::string g_prop = "C19";  // C13: only the memory oracles (ledger, ASan, handover) report

static vf::Counter c_pairs("(existing,text)-applications"), c_root_kinds("root-kind-combinations-seen"), c_key_kinds("matched-key-kind-combinations-seen"), c_undeclared("texts-with-undeclared-container-valued-keys"),
    c_repeat("repeated-applications(2..4 texts)"), c_pool("allocator:pool"), c_track("allocator:ledger"), c_arr_with_obj("shape:text-array-containing-object-onto-existing-object"),
    c_deep("shape:merge-depth>=3"), c_ledger("ledger-quiescent-checks"), c_known_empty("known-shape:declared-nonempty-object<-empty-object"), c_handover("handover(Swap/move)-then-destroy-former-holder");

enum K11 { qNull, qBool, qUint, qInt, qDbl, qStr, qEmptyArr, qArrScalars, qArrWithObj, qEmptyObj, qObj, qNumKinds };
static const char* k11_name(int k) {
  static const char* n[] = {"null", "bool", "uint", "int", "double", "string", "[]", "array-of-scalars", "array-with-object", "{}", "object"};
  return n[k];
}
static int k11_of(const JVal& v) {
  switch (v.k) {
    case JVal::Null: return qNull;
    case JVal::True:
    case JVal::False: return qBool;
    case JVal::Uint: return qUint;
    case JVal::Int: return qInt;
    case JVal::Dbl: return qDbl;
    case JVal::Str: return qStr;
    case JVal::Arr: {
      if (v.a.empty()) return qEmptyArr;
      std::function<bool(const JVal&)> has_obj = [&](const JVal& x) {
        if (x.k == JVal::Obj) return true;
        for (auto& e : x.a) if (has_obj(e)) return true;
        return false;
      };
      return has_obj(v) ? qArrWithObj : qArrScalars;
    }
    default: return v.o.empty() ? qEmptyObj : qObj;
  }
}

static JVal gen_scalar_of(int k, vf::Rng& r) {
  switch (k) {
    case qNull: return JVal::null();
    case qBool: return JVal::boolean(r.coin());
    case qUint: return JVal::uint(r.below(4) ? r.below(1000) : r.coin() ? UINT64_MAX - r.below(3) : (1ULL << 63) + r.below(3) - 1);  // also around 2^63 and 2^64
    case qInt: return JVal::sint(r.below(4) ? -(int64_t)r.below(1000) - 1 : INT64_MIN + (int64_t)r.below(3));
    case qDbl: return JVal::dbl(r.below(4) ? (double)(int64_t)r.below(1000) + 0.5 : r.coin() ? -1e300 : 5e-324);
    default: {
      std::string s(r.below(6) == 0 ? r.range(30, 80) : r.range(0, 10), 'a');
      for (auto& c : s) c = (char)r.range(0x20, 0x7e);
      return JVal::str(s);
    }
  }
}
static JVal gen_of_kind(int k, vf::Rng& r, int depth);
static JVal gen_obj(vf::Rng& r, int depth, size_t n) {
  JVal o = JVal::obj();
  for (size_t i = 0; i < n; i++) {
    std::string key = std::string(1, (char)('a' + i)) + (r.below(5) == 0 ? std::string(r.range(20, 40), 'k') : "");
    o.o.emplace_back(key, gen_of_kind((int)r.below(depth >= 3 ? qEmptyArr + 1 : qNumKinds), r, depth + 1));
  }
  return o;
}
static JVal gen_of_kind(int k, vf::Rng& r, int depth) {
  switch (k) {
    case qEmptyArr: return JVal::arr();
    case qArrScalars: {
      JVal a = JVal::arr();
      size_t n = r.range(1, 4);
      for (size_t i = 0; i < n; i++) a.a.push_back(gen_scalar_of((int)r.below(qStr + 1), r));
      return a;
    }
    case qArrWithObj: {
      JVal a = JVal::arr();
      size_t n = r.range(1, 3);
      for (size_t i = 0; i < n; i++) a.a.push_back(r.coin() ? gen_scalar_of((int)r.below(qStr + 1), r) : gen_obj(r, depth + 1, r.range(0, 3)));
      bool has = false;
      for (auto& e : a.a) if (e.k == JVal::Obj) has = true;
      if (!has) {
        if (r.coin()) a.a.push_back(gen_obj(r, depth + 1, r.range(1, 3)));
        else { JVal in = JVal::arr(); in.a.push_back(gen_obj(r, depth + 1, r.range(1, 2))); in.a.push_back(JVal::boolean(true)); a.a.push_back(in); }
      }
      return a;
    }
    case qEmptyObj: return JVal::obj();
    case qObj: return gen_obj(r, depth, r.range(1, 4));
    default: return gen_scalar_of(k, r);
  }
}

// text derived from an existing value: provides some declared keys (values of any kind), omits others, adds
// undeclared keys (often with container values, which the on-demand scanner has to skip)
static JVal derive_text(const JVal& e, vf::Rng& r, int depth, bool& undeclared_containers) {
  if (e.k != JVal::Obj || e.o.empty() || r.below(8) == 0) return gen_of_kind((int)r.below(qNumKinds), r, depth);
  JVal t = JVal::obj();
  std::vector<size_t> order(e.o.size());
  for (size_t i = 0; i < order.size(); i++) order[i] = i;
  for (size_t i = order.size(); i-- > 1;) std::swap(order[i], order[r.below(i + 1)]);
  size_t extra = 0;
  for (size_t i : order) {
    if (r.below(4) == 0) continue;  // omitted
    if (r.below(3) == 0) {           // undeclared key in between
      int k = r.coin() ? (int)r.range(qEmptyArr, qObj) : (int)r.below(qNumKinds);
      if (k >= qEmptyArr) undeclared_containers = true;
      t.o.emplace_back("undeclared" + std::to_string(extra++), gen_of_kind(k, r, depth + 1));
    }
    const JVal& ev = e.o[i].second;
    JVal tv;
    if (ev.k == JVal::Obj && !ev.o.empty() && r.below(3)) tv = derive_text(ev, r, depth + 1, undeclared_containers);
    else tv = gen_of_kind((int)r.below(depth >= 3 ? qEmptyArr + 1 : qNumKinds), r, depth + 1);
    t.o.emplace_back(e.o[i].first, tv);
  }
  if (r.below(3) == 0) {
    t.o.emplace_back("undeclared_tail", gen_of_kind((int)r.range(qEmptyArr, qObj), r, depth + 1));
    undeclared_containers = true;
  }
  return t;
}

// the merge the statement defines.  `strict_empty` decides what a declared key whose existing value is a non-empty
// object becomes when the text provides {} : strict (the statement: "otherwise taking the text's value whole")
// gives {}, the lenient reading keeps the existing value.
static JVal merge(const JVal& e, const JVal& t, bool root, bool strict_empty, int depth, int& maxdepth) {
  if (depth > maxdepth) maxdepth = depth;
  if (e.k == JVal::Obj && !e.o.empty() && t.k == JVal::Obj) {
    if (t.o.empty()) return (root || !strict_empty) ? e : t;
    JVal out = e;
    for (auto& tm : t.o)
      for (auto& em : out.o)
        if (em.first == tm.first) {
          em.second = merge(em.second, tm.second, false, strict_empty, depth + 1, maxdepth);
          break;
        }
    return out;
  }
  return t;
}

static std::string divergence_class(const JVal& e, const JVal& t, const JVal& want, const JVal& got, bool root = true) {
  // kinds on both sides at the first point where the library's result leaves the model
  if (jm::equal(want, got)) return "";
  if (e.k == JVal::Obj && !e.o.empty() && t.k == JVal::Obj && !t.o.empty() && want.k == JVal::Obj && got.k == JVal::Obj && want.o.size() == got.o.size()) {
    for (size_t i = 0; i < want.o.size(); i++) {
      if (want.o[i].first != got.o[i].first) return "member-order-or-key-set-changed";
      if (!jm::equal(want.o[i].second, got.o[i].second)) {
        const JVal* tv = nullptr;
        for (auto& tm : t.o) if (tm.first == want.o[i].first) tv = &tm.second;
        if (!tv) return std::string(root ? "root" : "nested") + ":omitted-key-changed(existing=" + k11_name(k11_of(e.o[i].second)) + ")";
        std::string sub = divergence_class(e.o[i].second, *tv, want.o[i].second, got.o[i].second, false);
        return sub;
      }
    }
  }
  return std::string(root ? "root" : "declared-key") + ":existing=" + k11_name(k11_of(e)) + ",text=" + k11_name(k11_of(t));
}

static uint64_t g_root_seen[qNumKinds][qNumKinds], g_key_seen[qNumKinds][qNumKinds];
static void note_kinds(const JVal& e, const JVal& t, bool root) {
  auto& tab = root ? g_root_seen : g_key_seen;
  if (tab[k11_of(e)][k11_of(t)]++ == 0) (root ? c_root_kinds : c_key_kinds).add();
  if (e.k == JVal::Obj && k11_of(t) == qArrWithObj) c_arr_with_obj.add();
  if (e.k == JVal::Obj && !e.o.empty() && t.k == JVal::Obj && !t.o.empty())
    for (auto& tm : t.o)
      for (auto& em : e.o)
        if (em.first == tm.first) note_kinds(em.second, tm.second, false);
}

static bool live_blocks_are_schema_input_copies(std::vector<size_t> text_lens);
static std::vector<size_t> g_schema_lens;  // text lengths of the ParseSchema calls of the current case (ledger classification)
template <class Doc>
static bool apply_and_judge(Doc& d, JVal& model, const JVal& tv, vf::Rng& r, const char* cfg, std::string& trace) {
  jm::RenderOpts ro;
  ro.ws_percent = (unsigned)r.pick(std::vector<unsigned>{0, 10, 40});
  std::string text = jm::render(tv, r, ro);
  jm::RefResult tref = jm::ref_parse(text);
  if (!tref.ok) return true;
  trace += " <- " + text;
  vf::witness(trace);
  c_pairs.add();
  vf::eval();
  note_kinds(model, tref.v, true);
  int md = 0;
  JVal want = merge(model, tref.v, true, true, 1, md);
  JVal lenient = merge(model, tref.v, true, false, 1, md);
  if (md >= 3) c_deep.add();
  char* buf = (char*)malloc(text.size() ? text.size() : 1);
  memcpy(buf, text.data(), text.size());
  vf::note("ParseSchema");
  g_schema_lens.push_back(text.size());
  d.ParseSchema(buf, text.size());
  free(buf);
  std::string ctx = std::string(cfg) + ": existing=" + jm::describe(model, 250) + " text=" + vf::printable(text, 250);
  if (d.HasParseError()) {
    vf::violation("valid-text-rejected", ctx + " -> error " + std::to_string((int)d.GetParseError()) + " at " + std::to_string(d.GetErrorOffset()));
    return false;
  }
  JVal got;
  std::string why;
  if (!su::read_node(d, got, why)) {
    vf::violation("document-corrupted(accessor-inconsistent)", ctx + ": " + why);
    return false;
  }
  vf::note("Dump-after-ParseSchema");
  std::string dump = d.Dump();
  jm::RefResult back = jm::ref_parse(dump);
  if (!back.ok || !jm::equal(back.v, got)) {
    vf::violation("not-serialisable-after-ParseSchema", ctx + " Dump()=" + vf::printable(dump, 200));
    return false;
  }
  if (!jm::equal(got, want) && g_prop == "C13") {
    model = got;  // merge semantics are C19's subject; keep following what the library holds
    return true;
  }
  if (!jm::equal(got, want)) {
    if (jm::equal(got, lenient)) {
      c_known_empty.add();
      vf::violation("model-mismatch:declared-key:existing=object,text={}:existing-value-kept", ctx + " result=" + jm::describe(got, 200));
      model = got;  // keep going from what the library holds
      return true;
    }
    vf::violation("model-mismatch:" + divergence_class(model, tref.v, want, got), ctx + " result=" + jm::describe(got, 250) + " expected=" + jm::describe(want, 250));
    return false;
  }
  model = want;
  return true;
}

template <class Doc>
static void one_case(vf::Rng& r, const char* cfg, bool ledger) {
  std::string trace;
  size_t applications = 0;
  g_schema_lens.clear();
  {
    // existing document: any kind at the root, objects preferred
    int rk = r.below(3) ? qObj : (int)r.below(qNumKinds);
    JVal e = gen_of_kind(rk, r, 0);
    std::string etext = jm::render_compact(e);
    trace = etext;
    Doc d;
    if (r.coin()) {
      d.Parse(etext.data(), etext.size());
      if (d.HasParseError()) return;
    } else {
      su::build_node(static_cast<typename Doc::NodeType&>(d), e, d.GetAllocator(), &r, su::kStrCopy);
    }
    JVal model = e;
    bool judged_ok = true;
    size_t reps = r.below(3) == 0 ? r.range(2, 4) : 1;
    if (reps > 1) c_repeat.add();
    for (size_t k = 0; k < reps; k++) {
      bool und = false;
      JVal tv = derive_text(model, r, 0, und);
      if (jm::has_dup_keys(tv) || jm::has_dup_keys(model)) break;
      if (und) c_undeclared.add();
      applications++;
      if (!apply_and_judge(d, model, tv, r, cfg, trace)) {
        judged_ok = false;
        break;
      }
    }
    vf::distinct(vf::hash_str(trace));
    if (r.coin()) (void)d.Dump();
    // the updated document handed on by Swap / move and its former holder destroyed: everything the new
    // holder needs (nodes, both input-text buffers) must have travelled with it
    if (judged_ok && r.below(3) == 0) {
      c_handover.add();
      Doc survivor;
      bool by_swap = r.coin();
      {
        Doc holder(std::move(d));
        if (by_swap) survivor.Swap(holder); else survivor = std::move(holder);
      }
      vf::note(by_swap ? "read-after-Swap-and-destroy" : "read-after-move-and-destroy");
      JVal got;
      std::string why;
      if (!su::read_node(survivor, got, why) || !jm::equal(got, model))
        vf::violation(std::string("handover-changed-document:") + (by_swap ? "Swap" : "move"), std::string(cfg) + ": " + jm::first_diff(got, model) + " history: " + vf::printable(trace, 300));
      std::string dump = survivor.Dump();
      jm::RefResult back = jm::ref_parse(dump);
      if (!back.ok || !jm::equal(back.v, model)) vf::violation(std::string("handover-dump-differs:") + (by_swap ? "Swap" : "move"), vf::printable(dump, 200));
    }
  }
  if (ledger) {
    c_ledger.add();
    if (su::ledger_errors()) vf::violation("ledger-bad-free", su::ledger().last_error + " history: " + vf::printable(trace, 400));
    size_t live = su::ledger_live();
    if (live) {
      // the input buffer of every ParseSchema call but the last stays allocated (strings of newly created values
      // point into it): that chain is a recorded finding; anything beyond it is a leak of nodes
      std::vector<size_t> earlier = g_schema_lens;
      if (!earlier.empty()) earlier.pop_back();  // the last call's copy is released with the document
      if (applications >= 2 && live <= applications - 1 && live_blocks_are_schema_input_copies(earlier))
        vf::violation("ledger-leak:previous-schema-input-buffers-after-repeated-ParseSchema", std::to_string(live) + " blocks after " + std::to_string(applications) + " ParseSchema calls");
      else
        vf::violation("ledger-leak", std::to_string(live) + " blocks still allocated after the document was destroyed (" + std::to_string(applications) +
                                         " ParseSchema calls); history: " + vf::printable(trace, 400));
    }
    su::ledger_reset();
  }
}

// live ledger blocks that are explained by the recorded finding (every ParseSchema call but the last leaves its len+64
// byte copy of the input allocated): each live block must match the size of one earlier call's copy
static bool live_blocks_are_schema_input_copies(std::vector<size_t> text_lens) {
  std::vector<size_t> live;
  {
    std::lock_guard<std::mutex> g(su::ledger().mu);
    for (auto& kv : su::ledger().live) live.push_back(kv.second.first);
  }
  for (size_t sz : live) {
    auto it = std::find_if(text_lens.begin(), text_lens.end(), [&](size_t l) { return l + 64 == sz; });
    if (it == text_lens.end()) return false;
    text_lens.erase(it);
  }
  return true;
}

// C13: ParseSchema on INVALID text (truncated / mutated), on documents of every allocator kind: whatever was built or
// replaced before the fault has to be torn down exactly once; the document is then inspected, reused and destroyed
static vf::Counter c_inv("ParseSchema-on-invalid-text"), c_inv_rej("invalid-text:rejected"), c_inv_acc("invalid-text:accepted(mutation kept it valid or lenient)"),
    c_inv_reuse("invalid-text:document-reused-afterwards");
template <class Doc>
static void invalid_text_case(vf::Rng& r, const char* cfg, bool ledger) {
  std::string trace;
  size_t applications = 0;
  std::vector<size_t> schema_lens;
  {
    JVal e = gen_of_kind(r.below(4) ? qObj : (int)r.below(qNumKinds), r, 0);
    std::string etext = jm::render_compact(e);
    trace = etext;
    Doc d;
    d.Parse(etext.data(), etext.size());
    if (d.HasParseError()) return;
    JVal model = e;
    size_t reps = r.range(1, 3);
    for (size_t k = 0; k < reps; k++) {
      bool und = false;
      JVal tv = derive_text(model, r, 0, und);
      jm::RenderOpts ro;
      ro.ws_percent = (unsigned)r.pick(std::vector<unsigned>{0, 10});
      std::string text = jm::render(tv, r, ro);
      switch (r.below(4)) {
        case 0: text.resize(r.below(text.size() + 1)); break;                                   // truncated anywhere
        case 1: text = jm::mutate(text, r); break;
        case 2: text = jm::mutate(jm::mutate(text, r), r); break;
        default: if (!text.empty()) text[r.below(text.size())] = (char)r.pick(std::vector<int>{'"', '\\', '{', '}', '[', ']', ',', ':', 0, 'x'}); break;
      }
      trace += " <- " + vf::printable(text, 200);
      vf::witness(trace);
      c_inv.add();
      vf::eval();
      applications++;
      schema_lens.push_back(text.size());
      char* buf = (char*)malloc(text.size() ? text.size() : 1);
      memcpy(buf, text.data(), text.size());
      vf::note("ParseSchema(invalid text)");
      d.ParseSchema(buf, text.size());
      free(buf);
      if (d.HasParseError()) c_inv_rej.add(); else c_inv_acc.add();
      // inspect whatever the document now holds (memory effects are what is observed; the content after a failed
      // ParseSchema is not specified)
      vf::note("inspect-after-ParseSchema(invalid text)");
      JVal got;
      std::string why;
      (void)su::read_node(d, got, why);
      if (r.coin()) {
        WriteBuffer wb;
        (void)d.Serialize(wb);
      }
      // reuse: a valid ParseSchema, a fresh Parse, or nothing
      switch (r.below(4)) {
        case 0: {
          c_inv_reuse.add();
          std::string t2 = "{\"after\":[1,{\"x\":\"" + std::string(r.below(40), 'y') + "\"}]}";
          vf::note("ParseSchema(valid) after a failed one");
          d.ParseSchema(t2.data(), t2.size());
          applications++;
          schema_lens.push_back(t2.size());
          break;
        }
        case 1: {
          c_inv_reuse.add();
          vf::note("Parse after a failed ParseSchema");
          d.Parse(etext.data(), etext.size());
          break;
        }
        default: break;
      }
      if (!su::read_node(d, got, why)) break;
      model = got;
      if (model.k != JVal::Obj) break;
    }
    vf::distinct(vf::hash_str(trace));
  }
  if (ledger) {
    c_ledger.add();
    if (su::ledger_errors()) vf::violation("ledger-bad-free:after-invalid-schema-text", su::ledger().last_error + " history: " + vf::printable(trace, 400));
    size_t live = su::ledger_live();
    if (live) {
      // the recorded finding (input copies of earlier ParseSchema calls stay allocated) also applies here; anything
      // beyond one block per earlier call is a leak of nodes or strings
      if (!schema_lens.empty()) schema_lens.pop_back();  // the last call's copy is released with the document
      if (live_blocks_are_schema_input_copies(schema_lens))
        vf::violation("ledger-leak:previous-schema-input-buffers-after-repeated-ParseSchema", std::to_string(live) + " blocks after " + std::to_string(applications) + " ParseSchema calls incl. invalid text");
      else
        vf::violation("ledger-leak:after-invalid-schema-text", std::to_string(live) + " blocks still allocated that are not input copies of earlier calls; history: " + vf::printable(trace, 400));
    }
    su::ledger_reset();
  }
  (void)cfg;
  (void)applications;
}

// systematic kind x kind matrix at the root and at one declared key
template <class Doc>
static void matrix_case(uint64_t i, vf::Rng& r, const char* cfg) {
  int ek = (int)(i % qNumKinds), tk = (int)((i / qNumKinds) % qNumKinds);
  bool at_key = (i / (qNumKinds * qNumKinds)) & 1;
  JVal e = gen_of_kind(ek, r, 1), t = gen_of_kind(tk, r, 1);
  if (at_key) {
    JVal eo = JVal::obj(), to = JVal::obj();
    eo.o.emplace_back("before", JVal::uint(1));
    eo.o.emplace_back("k", e);
    eo.o.emplace_back("after", JVal::str("unchanged"));
    if (r.coin()) to.o.emplace_back("skipme", gen_of_kind((int)r.range(qEmptyArr, qObj), r, 1));
    to.o.emplace_back("k", t);
    if (r.coin()) to.o.emplace_back("after", JVal::str("changed"));
    e = eo;
    t = to;
  }
  if (jm::has_dup_keys(e) || jm::has_dup_keys(t)) return;
  std::string trace = jm::render_compact(e);
  {
    Doc d;
    d.Parse(trace.data(), trace.size());
    if (d.HasParseError()) return;
    JVal model = e;
    apply_and_judge(d, model, t, r, cfg, trace);
    vf::distinct(vf::hash_str(trace));
  }
}

#ifndef VF_FUZZ_TARGET
int main(int argc, char** argv) {
  for (int i = 1; i + 1 < argc; i++)
    if (std::string(argv[i]) == "--prop") g_prop = argv[i + 1];
  std::vector<vf::Stream> S;
  S.push_back({"kind_matrix_pool", qNumKinds * qNumKinds * 2 * 8, qNumKinds * qNumKinds * 2 * 200, [](uint64_t i, vf::Rng& r) { c_pool.add(); matrix_case<su::PoolDoc>(i, r, "pool"); }});
  S.push_back({"kind_matrix_ledger", qNumKinds * qNumKinds * 2 * 8, qNumKinds * qNumKinds * 2 * 200, [](uint64_t i, vf::Rng& r) {
                 c_track.add();
                 su::ledger_reset();
                 matrix_case<su::TrackDoc>(i, r, "ledger");
                 c_ledger.add();
                 if (su::ledger_errors()) vf::violation("ledger-bad-free", su::ledger().last_error);
                 if (su::ledger_live()) vf::violation("ledger-leak", std::to_string(su::ledger_live()) + " blocks after one ParseSchema on a parsed document (kind matrix)");
                 su::ledger_reset();
               }});
  S.push_back({"generated_pairs_pool", 100000, 3000000, [](uint64_t, vf::Rng& r) { c_pool.add(); one_case<su::PoolDoc>(r, "pool", false); }});
  S.push_back({"generated_pairs_ledger", 100000, 3000000, [](uint64_t, vf::Rng& r) { c_track.add(); su::ledger_reset(); one_case<su::TrackDoc>(r, "ledger", true); }});
  if (g_prop == "C13") {
    S.push_back({"invalid_text_pool", 20000, 1000000, [](uint64_t, vf::Rng& r) { c_pool.add(); invalid_text_case<su::PoolDoc>(r, "pool", false); }});
    S.push_back({"invalid_text_ledger", 30000, 1500000, [](uint64_t, vf::Rng& r) { c_track.add(); su::ledger_reset(); invalid_text_case<su::TrackDoc>(r, "ledger", true); }});
  }
  return vf::run(argc, argv, S);
}
#endif  // VF_FUZZ_TARGET
