// vf.h -- worker-side runtime shared by every harness.
//
// A harness is a list of "streams" (workload classes).  Every stream has a case
// count per tier; case i of a stream is generated from (seed, stream id, i) by
// a counter-based generator, or enumerated from i, so any case can be re-run
// from three integers.  The runtime shards the flattened case index space over
// worker processes, publishes the case in flight in an mmap'ed status file (so
// the driver can name the culprit after a sanitizer abort, a guard-page fault
// or a hang), and writes violations / counters / samples as JSON lines.
#pragma once
#include <fcntl.h>
#include <signal.h>
#include <sys/mman.h>
#include <sys/stat.h>
#include <unistd.h>

#include <algorithm>
#include <cinttypes>
#include <cstdint>
#include <cstdio>
#include <cstdlib>
#include <cstring>
#include <functional>
#include <map>
#include <string>
#include <unordered_set>
#include <vector>

namespace vf {

// ---------------------------------------------------------------- hashing/rng
static inline uint64_t mix64(uint64_t x) {
  x += 0x9e3779b97f4a7c15ULL;
  x = (x ^ (x >> 30)) * 0xbf58476d1ce4e5b9ULL;
  x = (x ^ (x >> 27)) * 0x94d049bb133111ebULL;
  return x ^ (x >> 31);
}
static inline uint64_t hash_combine(uint64_t a, uint64_t b) {
  return mix64(a ^ (mix64(b) + 0x9e3779b97f4a7c15ULL + (a << 6) + (a >> 2)));
}
static inline uint64_t hash_bytes(const void* p, size_t n, uint64_t h = 0xcbf29ce484222325ULL) {
  const unsigned char* s = static_cast<const unsigned char*>(p);
  while (n >= 8) {
    uint64_t w;
    memcpy(&w, s, 8);
    h = (h ^ w) * 0x100000001b3ULL;
    h ^= h >> 29;
    s += 8;
    n -= 8;
  }
  while (n--) h = (h ^ *s++) * 0x100000001b3ULL;
  return mix64(h);
}
static inline uint64_t hash_str(const std::string& s, uint64_t h = 0xcbf29ce484222325ULL) {
  return hash_bytes(s.data(), s.size(), h);
}

struct Rng {
  uint64_t s;
  explicit Rng(uint64_t seed = 1) : s(seed) {}
  Rng(uint64_t seed, uint64_t stream, uint64_t idx)
      : s(hash_combine(hash_combine(mix64(seed), stream), idx)) {}
  uint64_t prng() {
    uint64_t z = (s += 0x9e3779b97f4a7c15ULL);
    z = (z ^ (z >> 30)) * 0xbf58476d1ce4e5b9ULL;
    z = (z ^ (z >> 27)) * 0x94d049bb133111ebULL;
    return z ^ (z >> 31);
  }
#ifdef VF_FUZZ_TARGET
  // libFuzzer targets can put the fuzzer's bytes under the generator: every decision consumes as few bytes of the tape
  // as its range needs (so that a mutation of the input changes one decision and coverage feedback steers the
  // generators), and falls back to the PRNG, seeded from the tape, once the tape is used up.
  const uint8_t* tape = nullptr;
  size_t tape_n = 0, tape_i = 0;
  void set_tape(const uint8_t* d, size_t n) {
    tape = d;
    tape_n = n;
    tape_i = 0;
    s = hash_bytes(d, n);
  }
  uint64_t take(unsigned nbytes) {
    uint64_t v = 0;
    for (unsigned k = 0; k < nbytes; k++) v = (v << 8) | tape[tape_i++];
    return v;
  }
  uint64_t next() { return tape && tape_i + 8 <= tape_n ? take(8) : prng(); }
  uint64_t below(uint64_t n) {
    if (!n) return 0;
    unsigned nb = n <= 0x100 ? 1 : n <= 0x10000 ? 2 : n <= 0x100000000ULL ? 4 : 8;
    if (tape && tape_i + nb <= tape_n) return take(nb) % n;
    return prng() % n;
  }
  bool coin() { return below(2) != 0; }
#else
  uint64_t next() { return prng(); }
  // uniform in [0,n)  (n>0); bias is irrelevant here
  uint64_t below(uint64_t n) { return n ? next() % n : 0; }
  bool coin() { return next() & 1; }
#endif
  // uniform in [lo,hi]
  uint64_t range(uint64_t lo, uint64_t hi) { return lo + below(hi - lo + 1); }
  bool chance(unsigned num, unsigned den) { return below(den) < num; }
  template <class T>
  const T& pick(const std::vector<T>& v) { return v[below(v.size())]; }
  template <class T, size_t N>
  const T& pick(const T (&v)[N]) { return v[below(N)]; }
};

// ---------------------------------------------------------------- arguments
struct Args {
  uint64_t seed = 1;
  bool thorough = false;
  uint64_t shard = 0, nshards = 1;
  uint64_t start = 0;        // first global case index to run
  long long only = -1;       // run exactly this global index (replay)
  double scale = 1.0;        // multiplies every stream count (calibration)
  std::string out = "";      // JSON-lines output
  std::string status = "";   // mmap'ed status file
  std::string streams = "";  // comma list restricting streams (optional)
  std::string hashes = "";   // file receiving distinct-case hashes
  std::string outcomes = ""; // file receiving (gidx, outcome digest) records
  bool verbose = false;
  unsigned case_timeout = 0;  // seconds; 0 = default watchdog (re-armed every 64 cases)
  std::vector<std::string> extra;  // harness-specific arguments
};
inline Args& args() {
  static Args a;
  return a;
}

// ---------------------------------------------------------------- status area
struct Status {
  uint64_t magic;
  volatile uint64_t gidx;         // global index of the case in flight
  volatile uint64_t local;        // index within the stream
  volatile uint64_t evaluations;  // inputs / executions judged so far in this process (vf::eval)
  volatile uint64_t cases;        // cases begun so far in this process
  volatile uint64_t in_case;      // 1 while a case is running
  volatile uint64_t sig;          // signal caught by our own handler (0 under ASan)
  volatile uint64_t fault_addr;
  char stream[64];
  char note[256];
  volatile uint32_t wlen;
  char witness[32768];
};
inline Status*& status_ptr() {
  static Status* p = nullptr;
  return p;
}
inline Status& status() {
  if (!status_ptr()) {
    static Status fallback;
    status_ptr() = &fallback;
  }
  return *status_ptr();
}

inline void witness(const void* p, size_t n) {
  Status& st = status();
  uint32_t m = n > sizeof(st.witness) ? sizeof(st.witness) : (uint32_t)n;
  memcpy(st.witness, p, m);
  st.wlen = m;
}
inline void witness(const std::string& s) { witness(s.data(), s.size()); }
inline void note(const char* s) {
  Status& st = status();
  strncpy(st.note, s, sizeof(st.note) - 1);
  st.note[sizeof(st.note) - 1] = 0;
}

// ---------------------------------------------------------------- output
inline FILE*& out_file() {
  static FILE* f = nullptr;
  return f;
}
inline std::string json_escape(const std::string& s) {
  std::string o;
  o.reserve(s.size() + 8);
  for (unsigned char c : s) {
    switch (c) {
      case '"': o += "\\\""; break;
      case '\\': o += "\\\\"; break;
      case '\n': o += "\\n"; break;
      case '\r': o += "\\r"; break;
      case '\t': o += "\\t"; break;
      default:
        if (c < 0x20 || c >= 0x7f) {
          char b[8];
          snprintf(b, sizeof b, "\\u%04x", c);
          o += b;
        } else {
          o += (char)c;
        }
    }
  }
  return o;
}
inline std::string hex(const void* p, size_t n) {
  static const char* d = "0123456789abcdef";
  const unsigned char* s = static_cast<const unsigned char*>(p);
  std::string o;
  o.reserve(n * 2);
  for (size_t i = 0; i < n; i++) {
    o += d[s[i] >> 4];
    o += d[s[i] & 15];
  }
  return o;
}
inline std::string hex(const std::string& s) { return hex(s.data(), s.size()); }
// printable rendering for samples/details: keeps ASCII, escapes the rest
inline std::string printable(const std::string& s, size_t max = 200) {
  std::string o;
  for (size_t i = 0; i < s.size() && i < max; i++) {
    unsigned char c = s[i];
    if (c >= 0x20 && c < 0x7f && c != '\\') {
      o += (char)c;
    } else {
      char b[8];
      snprintf(b, sizeof b, "\\x%02x", c);
      o += b;
    }
  }
  if (s.size() > max) o += "...(" + std::to_string(s.size()) + " bytes)";
  return o;
}

// ---------------------------------------------------------------- counters
struct Counter {
  const char* name;
  uint64_t n = 0;
  explicit Counter(const char* nm);
  void add(uint64_t k = 1) { n += k; }
};
inline std::vector<Counter*>& counters() {
  static std::vector<Counter*> v;
  return v;
}
inline Counter::Counter(const char* nm) : name(nm) { counters().push_back(this); }
// dynamic (string keyed) counters for low-frequency classes
inline std::map<std::string, uint64_t>& dyn_counters() {
  static std::map<std::string, uint64_t> m;
  return m;
}
inline void count(const std::string& name, uint64_t k = 1) { dyn_counters()[name] += k; }

inline std::map<std::string, std::vector<std::string>>& samples() {
  static std::map<std::string, std::vector<std::string>> m;
  return m;
}
inline void sample(const std::string& cls, const std::string& text, size_t keep = 2) {
  auto& v = samples()[cls];
  if (v.size() < keep) v.push_back(text.size() > 400 ? text.substr(0, 400) + "..." : text);
}
inline bool want_sample(const std::string& cls, size_t keep = 2) {
  auto it = samples().find(cls);
  return it == samples().end() || it->second.size() < keep;
}

// distinct non-trivial cases: exact 64-bit content-hash set up to a cap per
// worker (beyond the cap further cases are NOT counted: conservative), plus
// cases distinct by construction (enumerations).
struct Distinct {
  std::unordered_set<uint64_t> set;
  uint64_t enumerated = 0;
  uint64_t dropped = 0;
  uint64_t trivial = 0;
  size_t cap = 4u << 20;
};
inline Distinct& dist() {
  static Distinct d;
  return d;
}
inline void distinct(uint64_t h) {
  Distinct& d = dist();
  if (d.set.size() < d.cap)
    d.set.insert(h);
  else
    d.dropped++;
}
inline void distinct_enum(uint64_t n = 1) { dist().enumerated += n; }
inline void trivial(uint64_t n = 1) { dist().trivial += n; }

// order-independent digest of per-case outcomes, per stream; the driver sums
// over shards and compares runs that must behave identically (heap-fill sweep,
// build configurations)
inline std::map<std::string, uint64_t>& digests() {
  static std::map<std::string, uint64_t> m;
  return m;
}
inline FILE*& outcome_file() {
  static FILE* f = nullptr;
  return f;
}
inline void outcome(uint64_t h) {
  digests()[status().stream] += mix64(h);
  if (FILE* f = outcome_file()) {  // (global case index, digest) pairs: lets the driver name the case that differs between runs
    uint64_t rec[2] = {(uint64_t)status().gidx, h};
    fwrite(rec, 8, 2, f);
  }
}

// ---------------------------------------------------------------- violations
struct VioState {
  std::map<std::string, uint64_t> per_key;
  uint64_t total = 0;
};
inline VioState& vio() {
  static VioState v;
  return v;
}
// key: "oracle:class" (the driver prefixes the property id).  At most 5 full
// records per key are written; the rest are only counted.
inline void violation(const std::string& key, const std::string& detail) {
  VioState& v = vio();
  v.total++;
  uint64_t k = ++v.per_key[key];
  if (k > 5) return;
  Status& st = status();
#ifdef VF_FUZZ_TARGET
  // libFuzzer targets: the first violation ends the process; libFuzzer writes the input as an artifact
  fprintf(stderr, "FUZZ-VIOLATION key=%s\nFUZZ-DETAIL %s\n", key.c_str(), detail.c_str());
  fflush(stderr);
  abort();
#endif
  FILE* f = out_file();
  if (!f) {
    fprintf(stderr, "VIOLATION-DETAIL %s: %s\n", key.c_str(), detail.c_str());
    return;
  }
  fprintf(f,
          "{\"t\":\"V\",\"key\":\"%s\",\"detail\":\"%s\",\"stream\":\"%s\",\"gidx\":%" PRIu64
          ",\"local\":%" PRIu64 ",\"note\":\"%s\",\"witness_hex\":\"%s\"}\n",
          json_escape(key).c_str(), json_escape(detail).c_str(), json_escape(st.stream).c_str(),
          (uint64_t)st.gidx, (uint64_t)st.local, json_escape(st.note).c_str(),
          hex(st.witness, st.wlen).c_str());
  fflush(f);
  if (args().verbose) fprintf(stderr, "VIOLATION-DETAIL %s: %s\n", key.c_str(), detail.c_str());
}

// ---------------------------------------------------------------- streams
struct Stream {
  std::string name;
  uint64_t quick, thorough;  // case counts
  std::function<void(uint64_t, Rng&)> fn;
  bool scalable = true;  // false: enumerations whose size must not be scaled
};

inline void on_fatal_signal(int sig, siginfo_t* si, void*) {
  Status& st = status();
  st.sig = sig;
  st.fault_addr = (uint64_t)(uintptr_t)si->si_addr;
  // 90 + small code keeps these distinct from sanitizer exit codes
  _exit(sig == SIGALRM ? 97 : 98);
}

inline void install_signal_handlers(bool fatal_too) {
  struct sigaction sa;
  memset(&sa, 0, sizeof sa);
  sa.sa_sigaction = on_fatal_signal;
  sa.sa_flags = SA_SIGINFO | SA_NODEFER;
  static char altstack[65536];
  stack_t ss;
  ss.ss_sp = altstack;
  ss.ss_size = sizeof altstack;
  ss.ss_flags = 0;
  sigaltstack(&ss, nullptr);
  sa.sa_flags |= SA_ONSTACK;
  sigaction(SIGALRM, &sa, nullptr);
  if (fatal_too) {
    sigaction(SIGSEGV, &sa, nullptr);
    sigaction(SIGBUS, &sa, nullptr);
    sigaction(SIGABRT, &sa, nullptr);
    sigaction(SIGFPE, &sa, nullptr);
    sigaction(SIGILL, &sa, nullptr);
  }
}

#if defined(__SANITIZE_ADDRESS__) || defined(__SANITIZE_THREAD__)
#define VF_SANITIZER 1
#elif defined(__has_feature)
#if __has_feature(address_sanitizer) || __has_feature(thread_sanitizer)
#define VF_SANITIZER 1
#endif
#endif
#ifndef VF_SANITIZER
#define VF_SANITIZER 0
#endif

inline void parse_args(int argc, char** argv) {
  Args& a = args();
  if (const char* e = getenv("VERIF_SEED")) a.seed = strtoull(e, nullptr, 10);
  for (int i = 1; i < argc; i++) {
    std::string k = argv[i];
    auto val = [&]() -> std::string { return i + 1 < argc ? argv[++i] : ""; };
    if (k == "--seed") a.seed = strtoull(val().c_str(), nullptr, 10);
    else if (k == "--tier") a.thorough = (val() == "thorough");
    else if (k == "--shard") {
      std::string v = val();
      sscanf(v.c_str(), "%" SCNu64 "/%" SCNu64, &a.shard, &a.nshards);
    } else if (k == "--start") a.start = strtoull(val().c_str(), nullptr, 10);
    else if (k == "--only") a.only = strtoll(val().c_str(), nullptr, 10);
    else if (k == "--scale") a.scale = atof(val().c_str());
    else if (k == "--out") a.out = val();
    else if (k == "--status") a.status = val();
    else if (k == "--streams") a.streams = val();
    else if (k == "--hashes") a.hashes = val();
    else if (k == "--outcomes") a.outcomes = val();
    else if (k == "--verbose") a.verbose = true;
    else a.extra.push_back(k);
  }
}

inline bool stream_enabled(const std::string& name) {
  const std::string& f = args().streams;
  if (f.empty()) return true;
  size_t p = 0;
  while (p <= f.size()) {
    size_t q = f.find(',', p);
    if (q == std::string::npos) q = f.size();
    if (f.compare(p, q - p, name) == 0) return true;
    p = q + 1;
  }
  return false;
}

inline void write_summary(const std::vector<Stream>& streams, const std::vector<uint64_t>& per_stream,
                          bool done) {
  FILE* f = out_file() ? out_file() : stdout;
  Status& st = status();
  Distinct& d = dist();
  fprintf(f, "{\"t\":\"S\",\"done\":%s,\"cases\":%" PRIu64 ",\"evaluations\":%" PRIu64 ",\"distinct_hashed\":%zu,\"distinct_enumerated\":%" PRIu64
             ",\"distinct_dropped\":%" PRIu64 ",\"trivial\":%" PRIu64 ",\"violations\":%" PRIu64 ",\"streams\":{",
          done ? "true" : "false", (uint64_t)st.cases, (uint64_t)st.evaluations, d.set.size(), d.enumerated, d.dropped, d.trivial,
          vio().total);
  for (size_t i = 0; i < streams.size(); i++)
    fprintf(f, "%s\"%s\":%" PRIu64, i ? "," : "", json_escape(streams[i].name).c_str(), per_stream[i]);
  fprintf(f, "},\"counters\":{");
  bool first = true;
  std::map<std::string, uint64_t> all = dyn_counters();
  for (Counter* c : counters()) all[c->name] += c->n;
  for (auto& kv : all) {
    fprintf(f, "%s\"%s\":%" PRIu64, first ? "" : ",", json_escape(kv.first).c_str(), kv.second);
    first = false;
  }
  fprintf(f, "},\"vio_keys\":{");
  first = true;
  for (auto& kv : vio().per_key) {
    fprintf(f, "%s\"%s\":%" PRIu64, first ? "" : ",", json_escape(kv.first).c_str(), kv.second);
    first = false;
  }
  fprintf(f, "},\"digests\":{");
  first = true;
  for (auto& kv : digests()) {
    fprintf(f, "%s\"%s\":\"%016" PRIx64 "\"", first ? "" : ",", json_escape(kv.first).c_str(), kv.second);
    first = false;
  }
  fprintf(f, "},\"samples\":{");
  first = true;
  for (auto& kv : samples()) {
    fprintf(f, "%s\"%s\":[", first ? "" : ",", json_escape(kv.first).c_str());
    for (size_t i = 0; i < kv.second.size(); i++)
      fprintf(f, "%s\"%s\"", i ? "," : "", json_escape(kv.second[i]).c_str());
    fprintf(f, "]");
    first = false;
  }
  fprintf(f, "}}\n");
  fflush(f);
  if (!args().hashes.empty()) {
    FILE* h = fopen(args().hashes.c_str(), "ab");
    if (h) {
      std::vector<uint64_t> v(d.set.begin(), d.set.end());
      if (!v.empty()) fwrite(v.data(), 8, v.size(), h);
      fclose(h);
    }
  }
}

// merge mode: count distinct 64-bit hashes over several files
inline int merge_hashes(const std::vector<std::string>& files) {
  std::vector<uint64_t> all;
  for (auto& fn : files) {
    FILE* f = fopen(fn.c_str(), "rb");
    if (!f) continue;
    uint64_t buf[4096];
    size_t n;
    while ((n = fread(buf, 8, 4096, f)) > 0) all.insert(all.end(), buf, buf + n);
    fclose(f);
  }
  std::sort(all.begin(), all.end());
  size_t u = std::unique(all.begin(), all.end()) - all.begin();
  printf("%zu\n", u);
  return 0;
}

inline uint64_t stream_count(const Stream& s) {
  uint64_t c = args().thorough ? s.thorough : s.quick;
  if (s.scalable && args().scale != 1.0) {
    c = (uint64_t)(c * args().scale);
    if (c == 0) c = 1;
  }
  return c;
}

inline void begin_case(const Stream& s, uint64_t sid, uint64_t gidx, uint64_t local) {
  Status& st = status();
  if (st.stream[0] == 0 || strcmp(st.stream, s.name.c_str()) != 0) {
    strncpy(st.stream, s.name.c_str(), sizeof(st.stream) - 1);
    st.stream[sizeof(st.stream) - 1] = 0;
  }
  (void)sid;
  st.gidx = gidx;
  st.local = local;
  st.wlen = 0;
  st.note[0] = 0;
  st.in_case = 1;
  if ((st.cases & 0x3f) == 0 || args().case_timeout) alarm(args().case_timeout ? args().case_timeout : (args().thorough ? 900 : 90));
  st.cases = st.cases + 1;
}
// one input / execution judged by an oracle
inline void eval(uint64_t n = 1) {
  Status& st = status();
  st.evaluations = st.evaluations + n;
}

#ifdef VF_FUZZ_TARGET
// a libFuzzer target that compiles a harness's main() under another name receives the harness's streams here
inline std::vector<Stream>& fuzz_streams() {
  static std::vector<Stream> s;
  return s;
}
#endif

inline int run(int argc, char** argv, const std::vector<Stream>& streams) {
#ifdef VF_FUZZ_TARGET
  (void)argc;
  (void)argv;
  fuzz_streams() = streams;
  return 0;
#endif
  if (argc >= 2 && std::string(argv[1]) == "--merge-hashes") {
    std::vector<std::string> files(argv + 2, argv + argc);
    return merge_hashes(files);
  }
  parse_args(argc, argv);
  Args& a = args();
  if (!a.status.empty()) {
    int fd = open(a.status.c_str(), O_RDWR | O_CREAT, 0644);
    if (fd >= 0 && ftruncate(fd, sizeof(Status)) == 0) {
      void* p = mmap(nullptr, sizeof(Status), PROT_READ | PROT_WRITE, MAP_SHARED, fd, 0);
      if (p != MAP_FAILED) {
        status_ptr() = static_cast<Status*>(p);
        memset(p, 0, sizeof(Status));
      }
      close(fd);
    }
  }
  status().magic = 0x76657269665f7374ULL;
  if (!a.out.empty()) out_file() = fopen(a.out.c_str(), "a");
  if (!a.outcomes.empty()) outcome_file() = fopen(a.outcomes.c_str(), "ab");
  install_signal_handlers(!VF_SANITIZER);
  if (a.only >= 0) a.verbose = true;

  std::vector<uint64_t> per_stream(streams.size(), 0);
  uint64_t base = 0;
  for (size_t sid = 0; sid < streams.size(); sid++) {
    const Stream& s = streams[sid];
    uint64_t cnt = stream_count(s);
    uint64_t lo = base, hi = base + cnt;
    base = hi;
    if (!stream_enabled(s.name)) continue;
    if (a.only >= 0) {
      uint64_t g = (uint64_t)a.only;
      if (g < lo || g >= hi) continue;
      begin_case(s, sid, g, g - lo);
      Rng r(a.seed, hash_str(s.name), g - lo);
      s.fn(g - lo, r);
      status().in_case = 0;
      per_stream[sid]++;
      continue;
    }
    uint64_t g = std::max(lo, a.start);
    // first g >= max(lo,start) with g % nshards == shard
    uint64_t rem = g % a.nshards;
    if (rem != a.shard) g += (a.shard + a.nshards - rem) % a.nshards;
    for (; g < hi; g += a.nshards) {
      begin_case(s, sid, g, g - lo);
      Rng r(a.seed, hash_str(s.name), g - lo);
      s.fn(g - lo, r);
      status().in_case = 0;
      per_stream[sid]++;
      // an actual case of every stream goes into the evidence: the last witness the harness published
      if (per_stream[sid] <= 2 && status().wlen && want_sample("stream:" + s.name))
        sample("stream:" + s.name, printable(std::string(status().witness, status().wlen), 300));
    }
  }
  alarm(0);
  if (a.only < 0 || out_file()) write_summary(streams, per_stream, true);
  if (outcome_file()) fclose(outcome_file());
  if (out_file()) fclose(out_file());
  return 0;
}

}  // namespace vf
