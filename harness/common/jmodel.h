// jmodel.h -- JSON value model, reference (RFC 8259) parser written from the
// RFC and from the property statements, generator, renderer and mutators.
// Shares no code with sonic-cpp.
#pragma once
#include <cmath>
#include <cstdint>
#include <cstdlib>
#include <cstring>
#include <string>
#include <utility>
#include <vector>

#include "vf.h"

namespace jm {

struct JVal {
  enum Kind : uint8_t { Null, False, True, Uint, Int, Dbl, Str, Arr, Obj };
  Kind k = Null;
  uint64_t u = 0;  // Uint: value; Int: two's complement; Dbl: IEEE bits
  std::string s;   // Str: decoded bytes.  For numbers produced by the generator: spelling
  std::vector<JVal> a;
  std::vector<std::pair<std::string, JVal>> o;

  static JVal null() { return JVal(); }
  static JVal boolean(bool b) {
    JVal v;
    v.k = b ? True : False;
    return v;
  }
  static JVal uint(uint64_t x) {
    JVal v;
    v.k = Uint;
    v.u = x;
    return v;
  }
  static JVal sint(int64_t x) {
    JVal v;
    v.k = x < 0 ? Int : Uint;  // sonic stores non-negative values as the unsigned kind
    v.u = (uint64_t)x;
    return v;
  }
  static JVal dbl_bits(uint64_t bits) {
    JVal v;
    v.k = Dbl;
    v.u = bits;
    return v;
  }
  static JVal dbl(double d) {
    uint64_t b;
    memcpy(&b, &d, 8);
    return dbl_bits(b);
  }
  static JVal str(std::string x) {
    JVal v;
    v.k = Str;
    v.s = std::move(x);
    return v;
  }
  static JVal arr() {
    JVal v;
    v.k = Arr;
    return v;
  }
  static JVal obj() {
    JVal v;
    v.k = Obj;
    return v;
  }
  // generator-only: a number given by its spelling (value decided by ref_parse)
  static JVal numtext(std::string t) {
    JVal v;
    v.k = Dbl;
    v.s = std::move(t);
    return v;
  }
  bool is_num() const { return k == Uint || k == Int || k == Dbl; }
  double as_double() const {
    double d;
    memcpy(&d, &u, 8);
    return d;
  }
};

inline const char* kind_name(JVal::Kind k) {
  static const char* n[] = {"null", "false", "true", "uint", "int", "double", "string", "array", "object"};
  return n[k];
}

// ordered structural equality; numbers by kind and bits; objects as ordered
// member lists (duplicates significant)
inline bool equal(const JVal& x, const JVal& y) {
  if (x.k != y.k) return false;
  switch (x.k) {
    case JVal::Uint:
    case JVal::Int:
    case JVal::Dbl:
      return x.u == y.u;
    case JVal::Str:
      return x.s == y.s;
    case JVal::Arr:
      if (x.a.size() != y.a.size()) return false;
      for (size_t i = 0; i < x.a.size(); i++)
        if (!equal(x.a[i], y.a[i])) return false;
      return true;
    case JVal::Obj:
      if (x.o.size() != y.o.size()) return false;
      for (size_t i = 0; i < x.o.size(); i++)
        if (x.o[i].first != y.o[i].first || !equal(x.o[i].second, y.o[i].second)) return false;
      return true;
    default:
      return true;
  }
}

// JSON value equality with objects as key->value maps (no duplicate keys
// assumed), numbers by kind and bits
inline bool equal_unordered(const JVal& x, const JVal& y) {
  if (x.k != y.k) return false;
  switch (x.k) {
    case JVal::Uint:
    case JVal::Int:
    case JVal::Dbl:
      return x.u == y.u;
    case JVal::Str:
      return x.s == y.s;
    case JVal::Arr:
      if (x.a.size() != y.a.size()) return false;
      for (size_t i = 0; i < x.a.size(); i++)
        if (!equal_unordered(x.a[i], y.a[i])) return false;
      return true;
    case JVal::Obj: {
      if (x.o.size() != y.o.size()) return false;
      for (auto& m : x.o) {
        bool found = false;
        for (auto& n : y.o)
          if (n.first == m.first) {
            found = true;
            if (!equal_unordered(m.second, n.second)) return false;
            break;
          }
        if (!found) return false;
      }
      return true;
    }
    default:
      return true;
  }
}

// unambiguous debug rendering (kinds visible)
inline void describe_to(const JVal& v, std::string& o, size_t max = 600) {
  if (o.size() > max) return;
  char b[64];
  switch (v.k) {
    case JVal::Null: o += "null"; break;
    case JVal::False: o += "false"; break;
    case JVal::True: o += "true"; break;
    case JVal::Uint: snprintf(b, sizeof b, "u%llu", (unsigned long long)v.u); o += b; break;
    case JVal::Int: snprintf(b, sizeof b, "i%lld", (long long)(int64_t)v.u); o += b; break;
    case JVal::Dbl: snprintf(b, sizeof b, "d%016llx", (unsigned long long)v.u); o += b; break;
    case JVal::Str: o += "\"" + vf::printable(v.s, 80) + "\""; break;
    case JVal::Arr:
      o += "[";
      for (size_t i = 0; i < v.a.size() && o.size() <= max; i++) {
        if (i) o += ",";
        describe_to(v.a[i], o, max);
      }
      o += "]";
      break;
    case JVal::Obj:
      o += "{";
      for (size_t i = 0; i < v.o.size() && o.size() <= max; i++) {
        if (i) o += ",";
        o += "\"" + vf::printable(v.o[i].first, 80) + "\":";
        describe_to(v.o[i].second, o, max);
      }
      o += "}";
      break;
  }
}
inline std::string describe(const JVal& v, size_t max = 600) {
  std::string o;
  describe_to(v, o, max);
  if (o.size() > max) o = o.substr(0, max) + "...";
  return o;
}

// path and values of the first difference (ordered comparison)
inline std::string first_diff(const JVal& x, const JVal& y, const std::string& path = "$") {
  if (x.k != y.k || (x.k != JVal::Arr && x.k != JVal::Obj))
    return equal(x, y) ? "" : path + ": " + describe(x, 120) + " vs " + describe(y, 120);
  if (x.k == JVal::Arr) {
    if (x.a.size() != y.a.size())
      return path + ": array sizes " + std::to_string(x.a.size()) + " vs " + std::to_string(y.a.size());
    for (size_t i = 0; i < x.a.size(); i++) {
      std::string d = first_diff(x.a[i], y.a[i], path + "[" + std::to_string(i) + "]");
      if (!d.empty()) return d;
    }
    return "";
  }
  if (x.o.size() != y.o.size())
    return path + ": object sizes " + std::to_string(x.o.size()) + " vs " + std::to_string(y.o.size());
  for (size_t i = 0; i < x.o.size(); i++) {
    if (x.o[i].first != y.o[i].first)
      return path + ": key #" + std::to_string(i) + " \"" + vf::printable(x.o[i].first, 60) + "\" vs \"" + vf::printable(y.o[i].first, 60) + "\"";
    std::string d = first_diff(x.o[i].second, y.o[i].second, path + "." + vf::printable(x.o[i].first, 30));
    if (!d.empty()) return d;
  }
  return "";
}

inline uint64_t hash_val(const JVal& v, uint64_t h = 1) {
  h = vf::hash_combine(h, v.k);
  switch (v.k) {
    case JVal::Uint:
    case JVal::Int:
    case JVal::Dbl:
      h = vf::hash_combine(h, v.u);
      if (!v.s.empty()) h = vf::hash_str(v.s, h);
      break;
    case JVal::Str: h = vf::hash_str(v.s, h); break;
    case JVal::Arr:
      for (auto& e : v.a) h = hash_val(e, h);
      h = vf::hash_combine(h, v.a.size());
      break;
    case JVal::Obj:
      for (auto& m : v.o) {
        h = vf::hash_str(m.first, h);
        h = hash_val(m.second, h);
      }
      h = vf::hash_combine(h, v.o.size());
      break;
    default: break;
  }
  return h;
}

inline size_t node_count(const JVal& v) {
  size_t n = 1;
  for (auto& e : v.a) n += node_count(e);
  for (auto& m : v.o) n += 1 + node_count(m.second);
  return n;
}
inline size_t depth_of(const JVal& v) {
  size_t d = 0;
  for (auto& e : v.a) d = std::max(d, depth_of(e));
  for (auto& m : v.o) d = std::max(d, depth_of(m.second));
  return d + 1;
}
inline bool has_dup_keys(const JVal& v) {
  for (auto& e : v.a)
    if (has_dup_keys(e)) return true;
  for (size_t i = 0; i < v.o.size(); i++) {
    for (size_t j = i + 1; j < v.o.size(); j++)
      if (v.o[i].first == v.o[j].first) return true;
    if (has_dup_keys(v.o[i].second)) return true;
  }
  return false;
}

// =========================================================== reference parser
enum FaultKind : unsigned {
  kFkUnescaped = 1,     // raw byte < 0x20 inside a literal
  kFkEscFormat = 2,     // backslash followed by a byte that is not one of "\/bfnrtu
  kFkEscUnicode = 4,    // \u not followed by four hex digits, or surrogate misuse
  kFkUnterminated = 8,  // literal not closed before the end of input
};
struct Fault {
  enum Cls { None, Structural, Infinity, String } cls = None;
  size_t pos = 0;           // offset of the fault (start of token for Infinity)
  unsigned kinds = 0;       // FaultKind bits present in the faulty literal
  bool surrogate_only = false;  // every fault in the literal is a surrogate pairing fault
  bool in_key = false;
};
struct RefResult {
  bool ok = false;
  JVal v;
  Fault f;
  size_t depth = 0;      // maximum nesting seen
  size_t nodes = 0;      // values parsed
};

inline bool is_ws(unsigned char c) { return c == ' ' || c == '\t' || c == '\n' || c == '\r'; }
inline int hexval(unsigned char c) {
  if (c >= '0' && c <= '9') return c - '0';
  if (c >= 'a' && c <= 'f') return c - 'a' + 10;
  if (c >= 'A' && c <= 'F') return c - 'A' + 10;
  return -1;
}
inline void put_utf8(uint32_t cp, std::string& o) {
  if (cp <= 0x7f) {
    o += (char)cp;
  } else if (cp <= 0x7ff) {
    o += (char)(0xc0 | (cp >> 6));
    o += (char)(0x80 | (cp & 0x3f));
  } else if (cp <= 0xffff) {
    o += (char)(0xe0 | (cp >> 12));
    o += (char)(0x80 | ((cp >> 6) & 0x3f));
    o += (char)(0x80 | (cp & 0x3f));
  } else {
    o += (char)(0xf0 | (cp >> 18));
    o += (char)(0x80 | ((cp >> 12) & 0x3f));
    o += (char)(0x80 | ((cp >> 6) & 0x3f));
    o += (char)(0x80 | (cp & 0x3f));
  }
}

// Decodes one literal starting at p[i] == '"'.  On success returns true, sets
// `out` and leaves i after the closing quote.  On failure fills `f` with every
// fault kind found in the literal (scanning leniently to its end).
inline bool ref_string(const unsigned char* p, size_t n, size_t& i, std::string* out, Fault& f) {
  size_t start = i;
  size_t j = i + 1;
  unsigned kinds = 0;
  unsigned surrogate_faults = 0, other_faults = 0;
  size_t first_fault = (size_t)-1;
  auto fault = [&](unsigned k, size_t at, bool surrogate) {
    kinds |= k;
    if (surrogate) surrogate_faults++; else other_faults++;
    if (at < first_fault) first_fault = at;
  };
  std::string dec;
  bool closed = false;
  while (j < n) {
    unsigned char c = p[j];
    if (c == '"') {
      closed = true;
      j++;
      break;
    }
    if (c < 0x20) {
      fault(kFkUnescaped, j, false);
      j++;
      continue;
    }
    if (c != '\\') {
      dec += (char)c;
      j++;
      continue;
    }
    // escape
    if (j + 1 >= n) {
      j = n;  // lone backslash at end of input: unterminated
      break;
    }
    unsigned char e = p[j + 1];
    switch (e) {
      case '"': dec += '"'; j += 2; break;
      case '\\': dec += '\\'; j += 2; break;
      case '/': dec += '/'; j += 2; break;
      case 'b': dec += '\b'; j += 2; break;
      case 'f': dec += '\f'; j += 2; break;
      case 'n': dec += '\n'; j += 2; break;
      case 'r': dec += '\r'; j += 2; break;
      case 't': dec += '\t'; j += 2; break;
      case 'u': {
        auto hex4 = [&](size_t at, uint32_t& cp) -> bool {
          if (at + 4 > n) return false;
          cp = 0;
          for (int k = 0; k < 4; k++) {
            int h = hexval(p[at + k]);
            if (h < 0) return false;
            cp = cp * 16 + h;
          }
          return true;
        };
        uint32_t cp;
        if (!hex4(j + 2, cp)) {
          fault(kFkEscUnicode, j, false);
          // the hex field is cut by the end of input: reading it as a truncated
          // escape inside an unterminated literal is equally legitimate
          if (j + 6 > n) kinds |= kFkUnterminated;
          j += 2;  // lenient: continue after "\u"
          break;
        }
        if (cp >= 0xd800 && cp <= 0xdbff) {
          uint32_t lo;
          if (j + 7 < n && p[j + 6] == '\\' && p[j + 7] == 'u' && hex4(j + 8, lo)) {
            if (lo >= 0xdc00 && lo <= 0xdfff) {
              put_utf8(0x10000 + ((cp - 0xd800) << 10) + (lo - 0xdc00), dec);
              j += 12;
            } else {
              fault(kFkEscUnicode, j, true);  // high surrogate followed by a non-low \u
              j += 6;
            }
          } else {
            fault(kFkEscUnicode, j, true);  // unpaired high surrogate
            j += 6;
          }
        } else if (cp >= 0xdc00 && cp <= 0xdfff) {
          fault(kFkEscUnicode, j, true);  // lone low surrogate
          j += 6;
        } else {
          put_utf8(cp, dec);
          j += 6;
        }
        break;
      }
      default:
        fault(kFkEscFormat, j, false);
        // a backslash followed by a raw control byte is also an unescaped control byte
        if (e < 0x20) fault(kFkUnescaped, j + 1, false);
        j += 2;
    }
  }
  if (!closed) {
    kinds |= kFkUnterminated;
    other_faults++;
    if (first_fault == (size_t)-1) first_fault = n;
  }
  if (kinds) {
    f.cls = Fault::String;
    f.pos = first_fault == (size_t)-1 ? start : first_fault;
    f.kinds = kinds;
    f.surrogate_only = (other_faults == 0 && surrogate_faults > 0);
    i = j;
    return false;
  }
  if (out) *out = std::move(dec);
  i = j;
  return true;
}

// number grammar; on success i is after the number
inline bool ref_number_span(const unsigned char* p, size_t n, size_t& i, bool& is_integer) {
  size_t j = i;
  is_integer = true;
  if (j < n && p[j] == '-') j++;
  if (j >= n) { i = j; return false; }
  if (p[j] == '0') {
    j++;
  } else if (p[j] >= '1' && p[j] <= '9') {
    while (j < n && p[j] >= '0' && p[j] <= '9') j++;
  } else {
    i = j;
    return false;
  }
  if (j < n && p[j] == '.') {
    is_integer = false;
    j++;
    if (j >= n || p[j] < '0' || p[j] > '9') { i = j; return false; }
    while (j < n && p[j] >= '0' && p[j] <= '9') j++;
  }
  if (j < n && (p[j] == 'e' || p[j] == 'E')) {
    is_integer = false;
    j++;
    if (j < n && (p[j] == '+' || p[j] == '-')) j++;
    if (j >= n || p[j] < '0' || p[j] > '9') { i = j; return false; }
    while (j < n && p[j] >= '0' && p[j] <= '9') j++;
  }
  i = j;
  return true;
}

// value of a well-formed number token.  returns false on overflow to infinity
inline bool ref_number_value(const char* tok, size_t len, bool is_integer, JVal& out) {
  if (is_integer) {
    bool neg = tok[0] == '-';
    const char* d = tok + (neg ? 1 : 0);
    size_t nd = len - (neg ? 1 : 0);
    // exact decimal comparison against 2^64-1 / 2^63 (no leading zeros by grammar)
    static const char* kU = "18446744073709551615";
    static const char* kI = "9223372036854775808";
    const char* lim = neg ? kI : kU;
    size_t nl = strlen(lim);
    bool fits = nd < nl || (nd == nl && memcmp(d, lim, nl) <= 0);
    if (fits) {
      uint64_t v = 0;
      for (size_t k = 0; k < nd; k++) v = v * 10 + (d[k] - '0');
      if (neg && v != 0) {
        out.k = JVal::Int;
        out.u = (uint64_t)(0 - v);
      } else {
        out.k = JVal::Uint;  // "-0" denotes the integer zero
        out.u = 0 + (neg ? 0 : v);
      }
      return true;
    }
  }
  std::string z(tok, len);
  double d = strtod(z.c_str(), nullptr);
  if (std::isinf(d)) return false;
  out.k = JVal::Dbl;
  memcpy(&out.u, &d, 8);
  return true;
}

struct RefOpts {
  bool build = true;  // build the value tree (off for very deep inputs)
};

inline RefResult ref_parse(const char* data, size_t n, const RefOpts& opt = RefOpts()) {
  RefResult r;
  const unsigned char* p = reinterpret_cast<const unsigned char*>(data);
  size_t i = 0;
  struct Frame {
    bool is_obj;
    JVal v;
    std::string key;
  };
  std::vector<Frame> st;
  JVal root;
  bool have_root = false;
  auto skip_ws = [&]() {
    while (i < n && is_ws(p[i])) i++;
  };
  auto structural = [&](size_t at) {
    r.f.cls = Fault::Structural;
    r.f.pos = at;
    return r;
  };
  // deliver a completed value to the enclosing container (or the root)
  auto deliver = [&](JVal&& v) {
    r.nodes++;
    if (st.empty()) {
      root = std::move(v);
      have_root = true;
    } else if (opt.build) {
      Frame& f = st.back();
      if (f.is_obj)
        f.v.o.emplace_back(std::move(f.key), std::move(v));
      else
        f.v.a.emplace_back(std::move(v));
    }
  };
  enum State { WantValue, AfterValue } state = WantValue;
  bool first_in_container = false;  // just opened: ']' / '}' allowed
  for (;;) {
    skip_ws();
    if (state == WantValue) {
      if (i >= n) return structural(n);
      unsigned char c = p[i];
      if (!st.empty() && first_in_container) {
        if ((c == ']' && !st.back().is_obj) || (c == '}' && st.back().is_obj)) {
          i++;
          JVal v = std::move(st.back().v);
          st.pop_back();
          deliver(std::move(v));
          state = AfterValue;
          first_in_container = false;
          continue;
        }
      }
      first_in_container = false;
      if (!st.empty() && st.back().is_obj) {
        // key
        if (c != '"') return structural(i);
        std::string key;
        Fault f;
        if (!ref_string(p, n, i, &key, f)) {
          r.f = f;
          r.f.in_key = true;
          return r;
        }
        st.back().key = std::move(key);
        skip_ws();
        if (i >= n || p[i] != ':') return structural(i);
        i++;
        skip_ws();
        if (i >= n) return structural(n);
        c = p[i];
      }
      if (c == '[' || c == '{') {
        i++;
        Frame f;
        f.is_obj = (c == '{');
        f.v.k = f.is_obj ? JVal::Obj : JVal::Arr;
        st.push_back(std::move(f));
        if (st.size() > r.depth) r.depth = st.size();
        first_in_container = true;
        continue;
      }
      if (c == '"') {
        std::string s;
        Fault f;
        if (!ref_string(p, n, i, &s, f)) {
          r.f = f;
          return r;
        }
        deliver(JVal::str(std::move(s)));
        state = AfterValue;
        continue;
      }
      if (c == '-' || (c >= '0' && c <= '9')) {
        size_t b = i;
        bool is_int;
        if (!ref_number_span(p, n, i, is_int)) return structural(i);
        JVal v;
        if (!ref_number_value(data + b, i - b, is_int, v)) {
          r.f.cls = Fault::Infinity;
          r.f.pos = b;
          return r;
        }
        deliver(std::move(v));
        state = AfterValue;
        continue;
      }
      if (c == 't' && i + 4 <= n && memcmp(p + i, "true", 4) == 0) {
        i += 4;
        deliver(JVal::boolean(true));
        state = AfterValue;
        continue;
      }
      if (c == 'f' && i + 5 <= n && memcmp(p + i, "false", 5) == 0) {
        i += 5;
        deliver(JVal::boolean(false));
        state = AfterValue;
        continue;
      }
      if (c == 'n' && i + 4 <= n && memcmp(p + i, "null", 4) == 0) {
        i += 4;
        deliver(JVal::null());
        state = AfterValue;
        continue;
      }
      return structural(i);
    } else {  // AfterValue
      if (st.empty()) {
        if (i < n) return structural(i);  // trailing garbage
        r.ok = true;
        r.v = std::move(root);
        (void)have_root;
        return r;
      }
      if (i >= n) return structural(n);
      unsigned char c = p[i];
      if (c == ',') {
        i++;
        state = WantValue;
        continue;
      }
      if ((c == ']' && !st.back().is_obj) || (c == '}' && st.back().is_obj)) {
        i++;
        JVal v = std::move(st.back().v);
        st.pop_back();
        deliver(std::move(v));
        continue;
      }
      return structural(i);
    }
  }
}
inline RefResult ref_parse(const std::string& s, const RefOpts& opt = RefOpts()) {
  return ref_parse(s.data(), s.size(), opt);
}

// =========================================================== renderer
struct RenderOpts {
  unsigned ws_percent = 10;      // chance of whitespace at each grammar position
  unsigned long_ws_permille = 5; // chance that such whitespace is a 65..200 byte run
  unsigned esc_percent = 10;     // chance of escaping a byte that does not need it
  bool allow_u_escapes = true;
};

inline void render_ws(vf::Rng& r, const RenderOpts& o, std::string& out) {
  if (r.below(100) >= o.ws_percent) return;
  static const char ws[] = {' ', '\t', '\n', '\r'};
  size_t n;
  if (r.below(1000) < o.long_ws_permille) n = r.range(60, 200);
  else if (r.below(10) == 0) n = r.range(3, 40);
  else n = r.range(1, 2);
  bool mixed = r.coin();
  for (size_t i = 0; i < n; i++) out += mixed ? ws[r.below(4)] : ' ';
}

inline void render_u(uint32_t cu, vf::Rng& r, std::string& out) {
  char b[8];
  snprintf(b, sizeof b, r.coin() ? "\\u%04x" : "\\u%04X", cu);
  out += b;
}

// renders decoded bytes as a JSON string literal with random escape choices
inline void render_string(const std::string& s, vf::Rng& r, const RenderOpts& o, std::string& out) {
  out += '"';
  size_t i = 0;
  while (i < s.size()) {
    unsigned char c = s[i];
    bool must = (c == '"' || c == '\\' || c < 0x20);
    // decode a valid UTF-8 sequence (so it may be \u-escaped)
    uint32_t cp = c;
    size_t len = 1;
    if (c >= 0xc2 && c <= 0xdf && i + 1 < s.size() && ((unsigned char)s[i + 1] & 0xc0) == 0x80) {
      cp = ((c & 0x1f) << 6) | ((unsigned char)s[i + 1] & 0x3f);
      len = 2;
    } else if (c >= 0xe0 && c <= 0xef && i + 2 < s.size() && ((unsigned char)s[i + 1] & 0xc0) == 0x80 &&
               ((unsigned char)s[i + 2] & 0xc0) == 0x80) {
      uint32_t x = ((c & 0x0f) << 12) | (((unsigned char)s[i + 1] & 0x3f) << 6) | ((unsigned char)s[i + 2] & 0x3f);
      if (x >= 0x800 && !(x >= 0xd800 && x <= 0xdfff)) {
        cp = x;
        len = 3;
      }
    } else if (c >= 0xf0 && c <= 0xf4 && i + 3 < s.size() && ((unsigned char)s[i + 1] & 0xc0) == 0x80 &&
               ((unsigned char)s[i + 2] & 0xc0) == 0x80 && ((unsigned char)s[i + 3] & 0xc0) == 0x80) {
      uint32_t x = ((c & 0x07) << 18) | (((unsigned char)s[i + 1] & 0x3f) << 12) |
                   (((unsigned char)s[i + 2] & 0x3f) << 6) | ((unsigned char)s[i + 3] & 0x3f);
      if (x >= 0x10000 && x <= 0x10ffff) {
        cp = x;
        len = 4;
      }
    }
    bool escapable = (len > 1) || c < 0x80;  // a lone byte >= 0x80 can only be copied verbatim
    bool esc = must || (escapable && o.esc_percent && r.below(100) < o.esc_percent);
    if (!esc) {
      out.append(s, i, len);
      i += len;
      continue;
    }
    const char* two = nullptr;
    switch (cp) {
      case '"': two = "\\\""; break;
      case '\\': two = "\\\\"; break;
      case '/': two = "\\/"; break;
      case '\b': two = "\\b"; break;
      case '\f': two = "\\f"; break;
      case '\n': two = "\\n"; break;
      case '\r': two = "\\r"; break;
      case '\t': two = "\\t"; break;
    }
    if (two && (!o.allow_u_escapes || r.below(4) != 0)) {
      out += two;
    } else if (!o.allow_u_escapes && !must) {
      out.append(s, i, len);
    } else if (cp >= 0x10000) {
      uint32_t x = cp - 0x10000;
      render_u(0xd800 + (x >> 10), r, out);
      render_u(0xdc00 + (x & 0x3ff), r, out);
    } else {
      render_u(cp, r, out);
    }
    i += len;
  }
  out += '"';
}

inline void render_number(const JVal& v, vf::Rng& r, std::string& out) {
  char b[64];
  if (v.k == JVal::Uint) {
    snprintf(b, sizeof b, "%llu", (unsigned long long)v.u);
    out += b;
  } else if (v.k == JVal::Int) {
    snprintf(b, sizeof b, "%lld", (long long)(int64_t)v.u);
    out += b;
  } else if (!v.s.empty()) {
    out += v.s;
  } else {
    double d = v.as_double();
    // %.17g always reads back to the same double; make sure it is spelled as a
    // non-integer so that the kind is preserved
    switch (r.below(3)) {
      case 0: snprintf(b, sizeof b, "%.17g", d); break;
      case 1: snprintf(b, sizeof b, "%.17e", d); break;
      default: snprintf(b, sizeof b, "%.16E", d); break;
    }
    std::string t = b;
    if (t.find_first_of(".eE") == std::string::npos) t += ".0";
    out += t;
  }
}

inline void render_to(const JVal& v, vf::Rng& r, const RenderOpts& o, std::string& out) {
  switch (v.k) {
    case JVal::Null: out += "null"; break;
    case JVal::False: out += "false"; break;
    case JVal::True: out += "true"; break;
    case JVal::Uint:
    case JVal::Int:
    case JVal::Dbl: render_number(v, r, out); break;
    case JVal::Str: render_string(v.s, r, o, out); break;
    case JVal::Arr:
      out += '[';
      render_ws(r, o, out);
      for (size_t i = 0; i < v.a.size(); i++) {
        if (i) {
          out += ',';
          render_ws(r, o, out);
        }
        render_to(v.a[i], r, o, out);
        render_ws(r, o, out);
      }
      out += ']';
      break;
    case JVal::Obj:
      out += '{';
      render_ws(r, o, out);
      for (size_t i = 0; i < v.o.size(); i++) {
        if (i) {
          out += ',';
          render_ws(r, o, out);
        }
        render_string(v.o[i].first, r, o, out);
        render_ws(r, o, out);
        out += ':';
        render_ws(r, o, out);
        render_to(v.o[i].second, r, o, out);
        render_ws(r, o, out);
      }
      out += '}';
      break;
  }
}
inline std::string render(const JVal& v, vf::Rng& r, const RenderOpts& o = RenderOpts()) {
  std::string out;
  render_ws(r, o, out);
  render_to(v, r, o, out);
  render_ws(r, o, out);
  return out;
}
// compact canonical rendering (no whitespace, minimal escapes)
inline std::string render_compact(const JVal& v) {
  vf::Rng r(0);
  RenderOpts o;
  o.ws_percent = 0;
  o.esc_percent = 0;
  o.allow_u_escapes = true;
  std::string out;
  render_to(v, r, o, out);
  return out;
}

// =========================================================== generator
struct GenOpts {
  unsigned max_depth = 5;
  unsigned max_members = 8;       // per container (typical)
  bool dup_keys = false;          // allow duplicate keys
  bool hostile_strings = true;    // quotes, backslashes, brackets, high bytes in strings
  bool ascii_only = false;        // restrict strings to printable ASCII (differential self-test)
  unsigned big_container_permille = 10;  // chance of a container with a size near an unroll edge
  unsigned max_str = 40;
};

inline std::string gen_string(vf::Rng& r, const GenOpts& o) {
  size_t n;
  switch (r.below(10)) {
    case 0: n = 0; break;
    case 1: n = r.range(14, 18); break;
    case 2: n = r.range(30, 34); break;
    case 3: n = r.below(20) == 0 ? r.range(62, 130) : r.range(1, 8); break;
    default: n = r.range(1, o.max_str ? o.max_str : 1); break;
  }
  std::string s;
  s.reserve(n);
  static const char hostile[] = {'"', '\\', '[', ']', '{', '}', ',', ':', '/', ' ', '\n', '\t', '\b', '\f', '\r', 0x01, 0x1f, 0x7f, 0x00};
  int mode = o.ascii_only ? 0 : (int)r.below(6);
  for (size_t i = 0; i < n; i++) {
    if (o.ascii_only) {
      s += (char)r.range(0x20, 0x7e);
      continue;
    }
    switch (mode) {
      case 0:  // plain identifiers
        s += (char)("abcdefghijklmnopqrstuvwxyzABCXYZ0123456789_-"[r.below(45)]);
        break;
      case 1:  // hostile mix
        if (o.hostile_strings && r.below(3) == 0) s += hostile[r.below(sizeof hostile)];
        else s += (char)r.range(0x20, 0x7e);
        break;
      case 2: {  // valid UTF-8 multi-byte
        uint32_t cp;
        switch (r.below(4)) {
          case 0: cp = (uint32_t)r.range(0x80, 0x7ff); break;
          case 1: cp = (uint32_t)r.range(0x800, 0xd7ff); break;
          case 2: cp = (uint32_t)r.range(0xe000, 0xffff); break;
          default: cp = (uint32_t)r.range(0x10000, 0x10ffff); break;
        }
        if (r.coin()) put_utf8(cp, s); else s += (char)r.range(0x20, 0x7e);
        break;
      }
      case 3:  // arbitrary bytes (strings are not UTF-8 validated)
        s += (char)r.below(256);
        break;
      case 4:  // mostly quotes and backslashes
        s += r.coin() ? (r.coin() ? '"' : '\\') : (char)r.range(0x20, 0x7e);
        break;
      default:
        s += (char)r.range(0x20, 0x7e);
    }
  }
  return s;
}

inline std::string gen_key(vf::Rng& r, const GenOpts& o) {
  if (r.below(4) == 0) return gen_string(r, o);
  static const char* names[] = {"a", "b", "c", "id", "key", "name", "x", "y", "value", "data", "list", "k1", "k2", "", "A", "aa", "ab"};
  std::string k = names[r.below(17)];
  if (r.below(3) == 0) k += std::to_string(r.below(50));
  return k;
}

inline std::string gen_number_text_any(vf::Rng& r);
// a syntactically valid JSON number spelling of any shape whose value is finite
inline std::string gen_number_text(vf::Rng& r) {
  std::string t = gen_number_text_any(r);
  double d = strtod(t.c_str(), nullptr);
  if (std::isinf(d)) return t[0] == '-' ? "-1.7976931348623157e308" : "1.7976931348623157e308";
  return t;
}
inline std::string gen_number_text_any(vf::Rng& r) {
  std::string t;
  char b[80];
  if (r.below(16) == 0) {
    // a power of ten or its neighbour, as an integer or as an integer-valued double: the digit-count boundaries of the
    // formatters and the 2^k boundaries of the integer kinds
    unsigned k = (unsigned)r.below(20);
    unsigned long long p = 1;
    for (unsigned i = 0; i < k; i++) p *= 10;
    unsigned long long v = p + (r.below(3) == 0 ? 0 : r.coin() ? 1 : (unsigned long long)-1);
    if (r.below(4) == 0) v = (r.coin() ? (1ULL << r.range(30, 63)) : 0) + (unsigned long long)r.below(3) - 1;
    snprintf(b, sizeof b, "%s%llu%s", r.below(3) == 0 && v <= 9223372036854775808ULL ? "-" : "", v, r.below(4) == 0 ? ".0" : "");
    return b;
  }
  switch (r.below(12)) {
    case 0: {  // small integer
      snprintf(b, sizeof b, "%lld", (long long)r.range(0, 2000) - 1000);
      return b;
    }
    case 1: {  // 64-bit edges
      static const char* e[] = {"0", "-0", "1", "-1", "9223372036854775807", "9223372036854775808", "-9223372036854775808",
                                "-9223372036854775809", "18446744073709551615", "18446744073709551616", "4294967295",
                                "4294967296", "-2147483648", "2147483647", "9007199254740993", "99999999999999999999",
                                "10000000000000000000", "-18446744073709551615", "1000000000000000000000000"};
      return e[r.below(sizeof e / sizeof *e)];
    }
    case 2: {  // random uint64 / int64
      if (r.coin()) snprintf(b, sizeof b, "%llu", (unsigned long long)r.next());
      else snprintf(b, sizeof b, "%lld", (long long)r.next());
      return b;
    }
    case 3: {  // random finite double, 17 digits
      uint64_t bits;
      double d;
      do {
        bits = r.next();
        memcpy(&d, &bits, 8);
      } while (!std::isfinite(d));
      snprintf(b, sizeof b, r.coin() ? "%.17g" : "%.17e", d);
      t = b;
      if (t.find_first_of(".eE") == std::string::npos) t += ".0";
      return t;
    }
    case 4: {  // short decimals
      snprintf(b, sizeof b, "%s%llu.%0*llu", r.below(3) == 0 ? "-" : "", (unsigned long long)r.below(100000),
               (int)r.range(1, 6), (unsigned long long)r.below(1000000));
      return b;
    }
    case 5: {  // decimal with exponent
      snprintf(b, sizeof b, "%s%llu.%llu%c%s%llu", r.below(3) == 0 ? "-" : "", (unsigned long long)r.below(1000),
               (unsigned long long)r.below(100000), r.coin() ? 'e' : 'E', r.below(3) == 0 ? "-" : (r.coin() ? "+" : ""),
               (unsigned long long)r.below(r.coin() ? 30 : 310));
      return b;
    }
    case 6: {  // integer with exponent
      snprintf(b, sizeof b, "%s%llu%c%s%llu", r.below(3) == 0 ? "-" : "", (unsigned long long)r.below(100000),
               r.coin() ? 'e' : 'E', r.below(3) == 0 ? "-" : (r.coin() ? "+" : ""), (unsigned long long)r.below(40));
      return b;
    }
    case 7: {  // zeros
      static const char* z[] = {"0.0", "-0.0", "0e0", "0E-0", "0.000000000000000000000", "-0e999", "0e-999", "0.0e+5", "-0.00"};
      return z[r.below(sizeof z / sizeof *z)];
    }
    case 8: {  // long mantissa
      size_t n = r.range(18, 45);
      if (r.below(3) == 0) t += '-';
      t += (char)('1' + r.below(9));
      for (size_t i = 1; i < n; i++) t += (char)('0' + r.below(10));
      if (r.coin()) {
        t += '.';
        size_t m = r.range(1, 30);
        for (size_t i = 0; i < m; i++) t += (char)('0' + r.below(10));
      }
      if (r.below(3) == 0) {
        snprintf(b, sizeof b, "e%lld", (long long)r.range(0, 400) - 200);
        t += b;
      }
      return t;
    }
    case 9: {  // subnormal / extreme exponents (finite)
      static const char* x[] = {"4.9e-324", "2.2250738585072014e-308", "2.2250738585072011e-308", "1.7976931348623157e308",
                                "5e-324", "2.4703282292062328e-324", "1e-400", "1e308", "-1.7976931348623157E+308", "1e-323",
                                "123456789e-330", "0.1e-307"};
      return x[r.below(sizeof x / sizeof *x)];
    }
    case 10: {  // float-like
      float f;
      uint32_t fb;
      do {
        fb = (uint32_t)r.next();
        memcpy(&f, &fb, 4);
      } while (!std::isfinite(f));
      snprintf(b, sizeof b, "%.9g", (double)f);
      t = b;
      if (t.find_first_of(".eE") == std::string::npos) t += ".5";
      return t;
    }
    default: {
      snprintf(b, sizeof b, "%llu", (unsigned long long)r.below(100));
      return b;
    }
  }
}

inline JVal gen_scalar(vf::Rng& r, const GenOpts& o) {
  switch (r.below(7)) {
    case 0: return JVal::null();
    case 1: return JVal::boolean(r.coin());
    case 2:
    case 3: return JVal::numtext(gen_number_text(r));
    default: return JVal::str(gen_string(r, o));
  }
}

inline size_t gen_container_size(vf::Rng& r, const GenOpts& o) {
  if (r.below(1000) < o.big_container_permille) {
    static const size_t edges[] = {15, 16, 17, 31, 32, 33, 40, 127, 128, 129, 130};
    return edges[r.below(sizeof edges / sizeof *edges)];
  }
  switch (r.below(8)) {
    case 0: return 0;
    case 1: return 1;
    default: return r.range(0, o.max_members);
  }
}

inline JVal gen_value(vf::Rng& r, const GenOpts& o, unsigned depth = 0) {
  if (depth >= o.max_depth || r.below(10) < 3 + depth) return gen_scalar(r, o);
  size_t n = gen_container_size(r, o);
  if (depth > 0 && n > 40 && r.below(4)) n = r.below(6);
  if (r.coin()) {
    JVal v = JVal::arr();
    bool homogeneous = r.below(4) == 0;
    JVal proto = gen_scalar(r, o);
    for (size_t i = 0; i < n; i++) v.a.push_back(homogeneous ? proto : gen_value(r, o, depth + 1));
    return v;
  }
  JVal v = JVal::obj();
  for (size_t i = 0; i < n; i++) {
    std::string k = gen_key(r, o);
    if (n > 40) k += "#" + std::to_string(i);
    if (!o.dup_keys) {
      bool dup = false;
      for (auto& m : v.o)
        if (m.first == k) {
          dup = true;
          break;
        }
      if (dup) k += "_" + std::to_string(i);
      // still duplicate? make unique by index suffix loop
      for (bool again = true; again;) {
        again = false;
        for (auto& m : v.o)
          if (m.first == k) {
            k += "'";
            again = true;
            break;
          }
      }
    }
    v.o.emplace_back(std::move(k), gen_value(r, o, depth + 1));
  }
  return v;
}

// document generator: mostly container roots, sometimes scalar roots
inline JVal gen_document(vf::Rng& r, const GenOpts& o) {
  if (r.below(12) == 0) return gen_scalar(r, o);
  GenOpts o2 = o;
  JVal v;
  for (int tries = 0; tries < 4; tries++) {
    v = gen_value(r, o2, 0);
    if (v.k == JVal::Arr || v.k == JVal::Obj) break;
  }
  return v;
}

// =========================================================== mutators
// palette used for single-byte replacement / insertion
inline const std::string& palette() {
  static const std::string p = std::string("{}[]:,\"\\") + std::string(1, '\0') + "\x1f\x7f\x80\xff" + "0123456789eE.-+tfnalsru /\n";
  return p;
}

// one random mutation of `s` (result validity unknown)
inline std::string mutate(const std::string& s, vf::Rng& r) {
  std::string t = s;
  const std::string& pal = palette();
  switch (r.below(12)) {
    case 0:  // truncate
      t.resize(r.below(t.size() + 1));
      break;
    case 1:
    case 2:  // replace one byte from the palette
      if (!t.empty()) t[r.below(t.size())] = pal[r.below(pal.size())];
      break;
    case 3:  // replace with arbitrary byte
      if (!t.empty()) t[r.below(t.size())] = (char)r.below(256);
      break;
    case 4:  // insert
      t.insert(t.begin() + r.below(t.size() + 1), pal[r.below(pal.size())]);
      break;
    case 5:  // delete one byte
      if (!t.empty()) t.erase(t.begin() + r.below(t.size()));
      break;
    case 6: {  // delete a range
      if (!t.empty()) {
        size_t a = r.below(t.size());
        size_t n = r.range(1, std::min<size_t>(16, t.size() - a));
        t.erase(a, n);
      }
      break;
    }
    case 7: {  // duplicate a range
      if (!t.empty()) {
        size_t a = r.below(t.size());
        size_t n = r.range(1, std::min<size_t>(16, t.size() - a));
        t.insert(a, t.substr(a, n));
      }
      break;
    }
    case 8:  // append garbage / extra closer
      t += pal[r.below(pal.size())];
      break;
    case 9: {  // swap two separators
      std::vector<size_t> seps;
      for (size_t i = 0; i < t.size(); i++)
        if (t[i] == ',' || t[i] == ':' || t[i] == ']' || t[i] == '}' || t[i] == '[' || t[i] == '{') seps.push_back(i);
      if (seps.size() >= 2) std::swap(t[seps[r.below(seps.size())]], t[seps[r.below(seps.size())]]);
      break;
    }
    case 10: {  // prepend
      t.insert(t.begin(), pal[r.below(pal.size())]);
      break;
    }
    default: {  // flip one bit
      if (!t.empty()) t[r.below(t.size())] ^= (char)(1u << r.below(8));
      break;
    }
  }
  return t;
}

// hostile shapes that are not produced by mutation
inline std::string hostile_text(vf::Rng& r, size_t max_len) {
  std::string t;
  size_t n = r.range(1, max_len);
  switch (r.below(14)) {
    case 12:
    case 13: {  // several nesting peaks around the depths where containers of bookkeeping structures change representation
      // (16, 32, 64, 128, 1024): valid text, random walk of the depth between peaks
      static const size_t marks[] = {16, 32, 64, 128, 256, 1024};
      size_t mark = marks[r.below(6)];
      size_t depth = 0;
      std::string closers;
      auto open_to = [&](size_t d) {
        while (depth < d) {
          if (r.below(4) == 0) { t += "{\"a\":"; closers += '}'; } else { t += "["; closers += ']'; }
          depth++;
        }
      };
      auto close_to = [&](size_t d) {
        while (depth > d) {
          if (t.back() == '[' || t.back() == ':') t += "1";
          t += closers.back();
          closers.pop_back();
          depth--;
        }
      };
      int peaks = (int)r.range(2, 5);
      for (int k = 0; k < peaks; k++) {
        open_to(mark + r.range(0, 8) - (r.below(3) == 0 ? r.range(0, 2) : 0));
        close_to(mark - r.range(1, 10));
        // after closing a child the next sibling needs a separator
        if (closers.back() == ']') t += ","; else t += ",\"b" + std::to_string(k) + "\":";
      }
      t += "1";
      close_to(0);
      if (r.below(6) == 0) t.resize(r.below(t.size()));  // sometimes truncated
      break;
    }
    case 10:
    case 11: {  // opener flood (more containers than the text can legally hold), then members and closers
      bool obj = r.below(3) == 0;
      size_t d = r.range(1, n);
      for (size_t i = 0; i < d; i++) t += obj ? (r.coin() ? "{\"a\":" : "[{\"k\":") : "[";
      static const char* elems[] = {"null", "true", "false", "\"s\"", "1", "[]", "{}", "-0.5", "0.30000000000000004", "1.2345678901234567e+30",
                                    "12345678901234567890", "-9223372036854775809"};
      size_t m = r.range(0, 12);
      const char* e = elems[r.below(12)];
      for (size_t i = 0; i < m; i++) {
        if (i) t += ",";
        if (obj) t += "\"k" + std::to_string(i) + "\":";
        t += r.below(4) ? e : elems[r.below(12)];
      }
      size_t c = r.range(0, 3);
      for (size_t i = 0; i < c; i++) t += obj ? "}" : "]";
      break;
    }
    case 0: t.assign(n, '['); break;
    case 1: t.assign(n, '{'); break;
    case 2:
      for (size_t i = 0; i < n; i++) t += (i & 1) ? '{' : '[';
      break;
    case 3: {  // deep balanced arrays (valid)
      size_t d = n / 2 + 1;
      t.assign(d, '[');
      t.append(d, ']');
      break;
    }
    case 4: {  // deep objects {"a":{"a":...1...}}
      size_t d = n / 5 + 1;
      for (size_t i = 0; i < d; i++) t += "{\"a\":";
      t += "1";
      if (r.coin()) t.append(d, '}');  // valid when closed
      break;
    }
    case 5: {  // unbalanced closers
      size_t d = n / 2 + 1;
      t.assign(d, '[');
      t.append(d + r.range(1, 3), ']');
      break;
    }
    case 6: {  // many commas
      t = "[";
      for (size_t i = 0; i < n; i++) t += r.below(8) ? "1," : ",";
      t += "1]";
      break;
    }
    case 7: {  // long string with hostile tail
      t = "\"";
      t.append(n, 'a');
      static const char* tails[] = {"\"", "\\", "\\\"", "\\u", "\\u12", "\\ud800", "\\ud800\\u", "", "\x01\"", "\\x\""};
      t += tails[r.below(10)];
      break;
    }
    case 8: {  // uneven nesting: wide then deep
      t = "[";
      for (size_t i = 0; i < n / 4; i++) t += "[],";
      size_t d = n / 4 + 1;
      t.append(d, '[');
      if (r.coin()) {
        t.append(d, ']');
        t += "]";
      }
      break;
    }
    default: {  // long number
      t = r.coin() ? "-" : "";
      if (r.below(3) == 0) {
        // 600..2600 significant digits with a multi-digit integer part, scaled into the ranges where the conversion
        // falls back to its big-decimal path (near the overflow threshold, subnormals, or undecidable halfway cases)
        size_t nd = r.range(600, 2600), ip = r.range(1, 320);
        for (size_t i = 0; i < nd; i++) {
          if (i == ip) t += '.';
          t += (char)('0' + (i == 0 ? 1 + r.below(9) : r.below(10)));
        }
        long target = r.below(3) == 0 ? 308 : r.below(2) ? -(long)r.range(300, 330) : (long)r.range(0, 40) - 20;  // decimal exponent of the value
        t += "e" + std::to_string(target - (long)ip + 1);
        break;
      }
      for (size_t i = 0; i < n; i++) t += (char)('0' + r.below(10));
      if (r.coin()) t += ".5";
      if (r.below(3) == 0) t += "e" + std::to_string(r.below(400));
      break;
    }
  }
  return t;
}

}  // namespace jm
