// guard.h -- guard-page arena for non-sanitizer builds: operands are placed so that they end on
// the last mapped byte before a PROT_NONE page, or start on the first mapped byte after one.
// A SIGSEGV/SIGBUS inside the guard is caught by vf.h's handler (status.sig / fault_addr) and the
// worker exits with status 98; the driver turns that into a violation naming the case in flight.
#pragma once
#include <sys/mman.h>

#include <cstdint>
#include <cstdio>
#include <cstdlib>
#include <cstring>

namespace guard {

static const size_t kPage = 4096;

// [PROT_NONE page][ npages RW ][PROT_NONE page]
struct Region {
  unsigned char* base = nullptr;  // start of the whole mapping
  size_t npages = 0;
  unsigned char* lo() const { return base + kPage; }              // first accessible byte
  unsigned char* hi() const { return base + kPage * (1 + npages); }  // one past the last accessible byte

  explicit Region(size_t pages) : npages(pages) {
    void* p = mmap(nullptr, kPage * (pages + 2), PROT_READ | PROT_WRITE, MAP_PRIVATE | MAP_ANONYMOUS, -1, 0);
    if (p == MAP_FAILED) {
      perror("mmap");
      exit(2);
    }
    base = static_cast<unsigned char*>(p);
    mprotect(base, kPage, PROT_NONE);
    mprotect(base + kPage * (1 + pages), kPage, PROT_NONE);
  }
  ~Region() { munmap(base, kPage * (npages + 2)); }
  Region(const Region&) = delete;

  // pointer to `len` bytes whose last byte is `gap` bytes before the trailing guard page
  unsigned char* at_end(size_t len, size_t gap = 0) const { return hi() - gap - len; }
  // pointer to `len` bytes starting `gap` bytes after the leading guard page
  unsigned char* at_start(size_t gap = 0) const { return lo() + gap; }
  void fill(unsigned char b) const { memset(lo(), b, kPage * npages); }
};

}  // namespace guard
