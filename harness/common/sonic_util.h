// sonic_util.h -- glue between the model and the library under observation:
//   A-acc  : read a sonic node back into a JVal strictly through the public
//            accessor API (type tests, getters, Size, iteration)
//   builder: create a node from a JVal through the public mutation API
//   TrackAlloc: a really-freeing allocator with a ledger (double free, foreign
//            free, live blocks)
#pragma once
#include <mutex>
#include <unordered_map>

#include "jmodel.h"
#include "sonic/sonic.h"

namespace su {
using jm::JVal;

// ------------------------------------------------------------------ A-acc
// Returns false (and sets why) if the accessor API is self-inconsistent.
template <class NodeT>
bool read_node(const NodeT& n, JVal& out, std::string& why, unsigned depth = 0) {
  int kinds = (int)n.IsNull() + (int)n.IsBool() + (int)n.IsNumber() + (int)n.IsString() + (int)n.IsArray() +
              (int)n.IsObject() + (int)n.IsRaw();
  if (kinds != 1) {
    why = "node answers " + std::to_string(kinds) + " basic type tests";
    return false;
  }
  if (n.IsContainer() != (n.IsArray() || n.IsObject())) {
    why = "IsContainer disagrees with IsArray/IsObject";
    return false;
  }
  if (n.IsNull()) {
    out = JVal::null();
    return true;
  }
  if (n.IsBool()) {
    if (n.IsTrue() == n.IsFalse()) {
      why = "bool is both/neither true and false";
      return false;
    }
    if (n.GetBool() != n.IsTrue()) {
      why = "GetBool != IsTrue";
      return false;
    }
    out = JVal::boolean(n.GetBool());
    return true;
  }
  if (n.IsNumber()) {
    if (n.IsDouble()) {
      if (n.IsUint64() || n.IsInt64()) {
        why = "double also claims integer kind";
        return false;
      }
      out = JVal::dbl(n.GetDouble());
      return true;
    }
    if (n.IsUint64()) {
      uint64_t u = n.GetUint64();
      bool fits = u <= (uint64_t)INT64_MAX;
      if (n.IsInt64() != fits) {
        why = "IsInt64 wrong for unsigned value";
        return false;
      }
      if (fits && (uint64_t)n.GetInt64() != u) {
        why = "GetInt64 != GetUint64";
        return false;
      }
      if (n.GetDouble() != (double)u) {  // documented conversion of an integer node
        why = "GetDouble of an unsigned node is not (double)value";
        return false;
      }
      out = JVal::uint(u);
      return true;
    }
    if (n.IsInt64()) {
      int64_t i = n.GetInt64();
      if (i >= 0) {
        why = "signed kind holds a non-negative value";
        return false;
      }
      if (n.GetDouble() != (double)i) {
        why = "GetDouble of a signed node is not (double)value";
        return false;
      }
      out.k = JVal::Int;
      out.u = (uint64_t)i;
      return true;
    }
    why = "number of no kind";
    return false;
  }
  if (n.IsString()) {
    auto sv = n.GetStringView();
    if (sv.size() != n.Size()) {
      why = "string Size() != view size";
      return false;
    }
    if (n.Empty() != (sv.size() == 0)) {
      why = "string Empty() wrong";
      return false;
    }
    std::string g = n.GetString();
    if (g.size() != sv.size() || memcmp(g.data(), sv.data(), g.size()) != 0) {
      why = "GetString != GetStringView";
      return false;
    }
    out = JVal::str(std::move(g));
    return true;
  }
  if (n.IsArray()) {
    out = JVal::arr();
    size_t sz = n.Size();
    if (n.Empty() != (sz == 0)) {
      why = "array Empty() wrong";
      return false;
    }
    if (n.Capacity() < sz) {
      why = "array Capacity < Size";
      return false;
    }
    if ((size_t)(n.End() - n.Begin()) != sz) {
      why = "array End-Begin != Size";
      return false;
    }
    size_t i = 0;
    out.a.reserve(sz);
    for (auto it = n.Begin(); it != n.End(); ++it, ++i) {
      if (&n[i] != &*it) {
        why = "operator[](idx) != iterator element";
        return false;
      }
      JVal c;
      if (!read_node(*it, c, why, depth + 1)) return false;
      out.a.push_back(std::move(c));
    }
    if (sz && &n.Back() != &n[sz - 1]) {
      why = "Back() is not the last element";
      return false;
    }
    return true;
  }
  if (n.IsObject()) {
    out = JVal::obj();
    size_t sz = n.Size();
    if (n.Empty() != (sz == 0)) {
      why = "object Empty() wrong";
      return false;
    }
    if (n.Capacity() < sz) {
      why = "object Capacity < Size";
      return false;
    }
    if ((size_t)(n.MemberEnd() - n.MemberBegin()) != sz) {
      why = "object MemberEnd-MemberBegin != Size";
      return false;
    }
    out.o.reserve(sz);
    for (auto it = n.MemberBegin(); it != n.MemberEnd(); ++it) {
      if (!it->name.IsString()) {
        why = "member name is not a string";
        return false;
      }
      JVal c;
      if (!read_node(it->value, c, why, depth + 1)) return false;
      auto sv = it->name.GetStringView();
      out.o.emplace_back(std::string(sv.data(), sv.size()), std::move(c));
    }
    return true;
  }
  why = "raw node";
  return false;
}

// ------------------------------------------------------------------ builder
enum StrMode { kStrCopy, kStrConst, kStrMixed };
// Builds `v` into `n` through the mutation API.  Strings referenced in const
// mode point into `v`, which must outlive the node.
template <class NodeT, class Alloc>
void build_node(NodeT& n, const JVal& v, Alloc& a, vf::Rng* r = nullptr, StrMode sm = kStrCopy) {
  switch (v.k) {
    case JVal::Null: n.SetNull(); break;
    case JVal::False: n.SetBool(false); break;
    case JVal::True: n.SetBool(true); break;
    case JVal::Uint: n.SetUint64(v.u); break;
    case JVal::Int: n.SetInt64((int64_t)v.u); break;
    case JVal::Dbl: n.SetDouble(v.as_double()); break;
    case JVal::Str: {
      bool cst = sm == kStrConst || (sm == kStrMixed && r && r->coin());
      if (cst) n.SetString(v.s.data(), v.s.size());
      else n.SetString(v.s.data(), v.s.size(), a);
      break;
    }
    case JVal::Arr:
      n.SetArray();
      if (r && r->below(4) == 0) n.Reserve(r->below(v.a.size() + 3), a);
      for (auto& e : v.a) {
        NodeT c;
        build_node(c, e, a, r, sm);
        n.PushBack(std::move(c), a);
      }
      break;
    case JVal::Obj:
      n.SetObject();
      if (r && r->below(4) == 0) n.MemberReserve(r->below(v.o.size() + 3), a);
      for (auto& m : v.o) {
        NodeT c;
        build_node(c, m.second, a, r, sm);
        bool copy_key = !(sm == kStrConst || (sm == kStrMixed && r && r->coin()));
        n.AddMember(sonic_json::StringView(m.first.data(), m.first.size()), std::move(c), a, copy_key);
      }
      break;
  }
}

// ------------------------------------------------------------------ TrackAlloc
// Ledger allocator: every block is recorded (exactly-once release, nothing live at the end).  In sanitizer builds a
// block is an exact malloc block (ASan sees the first byte outside it).  In production builds - where the library takes
// code paths that are compiled out under sanitizers - every block is wrapped in two 32-byte guard zones filled with a
// pattern; the zones are verified when the block is released or resized and whenever the ledger is consulted, so a
// write past either end of a block is observed without a sanitizer.
#if defined(__SANITIZE_ADDRESS__) || defined(__SANITIZE_THREAD__)
#define SU_LEDGER_GUARDS 0
#else
#define SU_LEDGER_GUARDS 1
#endif
struct Ledger {
  std::mutex mu;
  std::unordered_map<void*, std::pair<size_t, uint64_t>> live;
  uint64_t serial = 0;
  uint64_t mallocs = 0, frees = 0, reallocs = 0;
  uint64_t foreign_free = 0, realloc_foreign = 0, guard_damaged = 0;
  std::string last_error;
};
inline Ledger& ledger() {
  static Ledger l;
  return l;
}
static const size_t kLedgerGuard = SU_LEDGER_GUARDS ? 32 : 0;
static const unsigned char kLedgerGuardByte = 0xA5;
// caller holds l.mu
inline bool ledger_guards_intact(Ledger& l, void* user, size_t size) {
  if (!SU_LEDGER_GUARDS) return true;
  const unsigned char* u = static_cast<const unsigned char*>(user);
  for (size_t k = 1; k <= kLedgerGuard; k++)
    if (u[-(long)k] != kLedgerGuardByte) {
      l.guard_damaged++;
      l.last_error = "byte " + std::to_string(k) + " BEFORE a block of " + std::to_string(size) + " bytes was overwritten";
      return false;
    }
  for (size_t k = 0; k < kLedgerGuard; k++)
    if (u[size + k] != kLedgerGuardByte) {
      l.guard_damaged++;
      l.last_error = "byte " + std::to_string(k) + " AFTER a block of " + std::to_string(size) + " bytes was overwritten";
      return false;
    }
  return true;
}
inline void* ledger_raw_alloc(size_t size) {
  unsigned char* raw = static_cast<unsigned char*>(std::malloc(size + 2 * kLedgerGuard));
  if (!raw) return nullptr;
  if (SU_LEDGER_GUARDS) {
    memset(raw, kLedgerGuardByte, kLedgerGuard);
    memset(raw + kLedgerGuard + size, kLedgerGuardByte, kLedgerGuard);
  }
  return raw + kLedgerGuard;
}
inline void ledger_raw_free(void* user) { std::free(static_cast<unsigned char*>(user) - kLedgerGuard); }

class TrackAlloc {
 public:
  static constexpr bool kNeedFree = true;
  void* Malloc(size_t size) {
    if (size == 0) return nullptr;
    void* p = ledger_raw_alloc(size);
    Ledger& l = ledger();
    std::lock_guard<std::mutex> g(l.mu);
    l.mallocs++;
    l.live[p] = {size, ++l.serial};
    return p;
  }
  void* Realloc(void* old, size_t old_size, size_t new_size) {
    (void)old_size;
    Ledger& l = ledger();
    if (new_size == 0) {
      Free(old);
      return nullptr;
    }
    size_t known = 0;
    bool had = false;
    if (old) {
      std::lock_guard<std::mutex> g(l.mu);
      auto it = l.live.find(old);
      if (it == l.live.end()) {
        l.realloc_foreign++;
        l.last_error = "Realloc of a block the ledger does not know";
      } else {
        known = it->second.first;
        had = true;
        ledger_guards_intact(l, old, known);
        l.live.erase(it);
      }
    }
    void* p = ledger_raw_alloc(new_size);
    if (had && p) {
      std::memcpy(p, old, known < new_size ? known : new_size);
      ledger_raw_free(old);
    }
    std::lock_guard<std::mutex> g(l.mu);
    l.reallocs++;
    l.live[p] = {new_size, ++l.serial};
    return p;
  }
  static void Free(void* p) {
    if (!p) return;
    Ledger& l = ledger();
    {
      std::lock_guard<std::mutex> g(l.mu);
      auto it = l.live.find(p);
      if (it == l.live.end()) {
        l.foreign_free++;
        l.last_error = "Free of a block that is not live (double or foreign free)";
        return;  // do not hand it to free(): keep running so the harness can report
      }
      ledger_guards_intact(l, p, it->second.first);
      l.live.erase(it);
      l.frees++;
    }
    ledger_raw_free(p);
  }
  bool operator==(const TrackAlloc&) const { return true; }
  bool operator!=(const TrackAlloc&) const { return false; }
};

inline size_t ledger_live() {
  Ledger& l = ledger();
  std::lock_guard<std::mutex> g(l.mu);
  return l.live.size();
}
inline uint64_t ledger_errors() {
  Ledger& l = ledger();
  std::lock_guard<std::mutex> g(l.mu);
  if (SU_LEDGER_GUARDS && l.guard_damaged == 0)
    for (auto& kv : l.live)
      if (!ledger_guards_intact(l, kv.first, kv.second.first)) break;
  return l.foreign_free + l.realloc_foreign + l.guard_damaged;
}
// drop everything still live (after reporting) so that one leak is not
// re-reported by every later case
inline void ledger_reset() {
  Ledger& l = ledger();
  std::lock_guard<std::mutex> g(l.mu);
  for (auto& kv : l.live) ledger_raw_free(kv.first);
  l.live.clear();
  l.foreign_free = l.realloc_foreign = l.guard_damaged = 0;
  l.last_error.clear();
}

using PoolDoc = sonic_json::Document;
using PoolNode = sonic_json::Node;
using SimpleNode = sonic_json::DNode<sonic_json::SimpleAllocator>;
using SimpleDoc = sonic_json::GenericDocument<SimpleNode>;
using TrackNode = sonic_json::DNode<TrackAlloc>;
using TrackDoc = sonic_json::GenericDocument<TrackNode>;
using AdaptivePool = sonic_json::MemoryPoolAllocator<sonic_json::SimpleAllocator, sonic_json::AdaptiveChunkPolicy>;
using AdaptiveNode = sonic_json::DNode<AdaptivePool>;
using AdaptiveDoc = sonic_json::GenericDocument<AdaptiveNode>;

}  // namespace su
