// thread_harness.cpp -- C17: independent documents and shared read-only documents are race-free; with
// -DSONIC_LOCKED_ALLOCATOR threads may allocate from one shared pool.
// Built with -fsanitize=thread; every ThreadSanitizer report is a violation (the driver parses the log).
// Post-join oracles: per-thread results equal the single-threaded results; blocks from the shared pool are
// disjoint and intact.
#include <sys/wait.h>
#include <unistd.h>

#include <atomic>
#include <thread>

#include "common/jmodel.h"
#include "common/sonic_util.h"
#include "common/vf.h"
#include "sonic/experiment/lazy_update.h"

using jm::JVal;
using namespace sonic_json;

static vf::Counter c_runs("thread-team-runs"), c_threads("threads-started"), c_ops("operations-performed"), c_inter("distinct-interleaving-prefixes(first 48 tickets)"),
    c_w1("W1:own-documents(parse,mutate,serialize,on-demand,UpdateLazy,ParseSchema)"), c_w2("W2:shared-read-only-document"), c_w2_missing("W2:operator[]-on-missing-key"),
    c_w2_map("W2:shared-document-with-lookup-map"), c_w3("W3:shared-pool-by-reference(locked)"), c_w3_docs("W3:documents-on-the-shared-pool"), c_w3_copies("W3b:shared-pool-through-handle-copies(locked)"),
    c_w0("W0:cold-start-teams(first library use in a fresh process is concurrent)");

// global ticket counter: which thread performed the k-th operation (evidence of interleaving diversity)
static std::atomic<uint64_t> g_ticket{0};
static std::atomic<uint8_t> g_order[48];
static inline void ticket(unsigned tid) {
  uint64_t t = g_ticket.fetch_add(1, std::memory_order_relaxed);
  if (t < 48) g_order[t].store((uint8_t)(tid + 1), std::memory_order_relaxed);
}
static void reset_tickets() {
  g_ticket = 0;
  for (auto& o : g_order) o = 0;
}
static std::unordered_set<uint64_t>& seen_orders() {
  static std::unordered_set<uint64_t> s;
  return s;
}
static void account_interleaving(uint64_t total_ops) {
  uint8_t buf[48];
  for (int i = 0; i < 48; i++) buf[i] = g_order[i].load();
  uint64_t h = vf::hash_bytes(buf, 48);
  if (seen_orders().insert(h).second) c_inter.add();
  vf::distinct(h);
  c_ops.add(total_ops);
}

static unsigned nthreads(vf::Rng& r) { return r.coin() ? 8 : 16; }

// ------------------------------------------------------------------ W1: each thread on its own documents
static uint64_t w1_thread_work(uint64_t seed, unsigned tid, bool tickets) {
  vf::Rng r(seed, 77, tid);
  uint64_t digest = 0;
  for (int it = 0; it < 12; it++) {
    jm::GenOpts go;
    go.max_depth = 3;
    JVal v = jm::gen_document(r, go);
    jm::RenderOpts ro;
    std::string text = jm::render(v, r, ro);
    if (tickets) ticket(tid);
    // every fourth document of a thread lives on a private pool with the adaptive chunk policy started small, so
    // that the policy's growth logic runs in several threads at once
    if ((it & 3) == 3) {
      su::AdaptivePool apool((size_t)512 << (tid & 3));
      su::AdaptiveDoc ad(&apool);
      std::string big = "[\"" + std::string(3000 + 500 * (it & 7), 'a' + (char)(tid % 26)) + "\"," + text + "]";
      ad.Parse(big.data(), big.size());
      digest = vf::hash_combine(digest, ad.HasParseError());
      if (!ad.HasParseError()) digest = vf::hash_str(ad.Dump(), digest);
    }
    su::PoolDoc d;
    d.Parse(text.data(), text.size());
    digest = vf::hash_combine(digest, d.HasParseError());
    if (d.HasParseError()) continue;
    // mutate
    if (d.IsObject()) {
      d.AddMember("added", su::PoolNode((uint64_t)it), d.GetAllocator());
      d.CreateMap(d.GetAllocator());
      digest = vf::hash_combine(digest, d.HasMember("added"));
      digest = vf::hash_combine(digest, d["certainly-missing-key"].IsNull());
      d.RemoveMember("added");
    } else if (d.IsArray()) {
      d.PushBack(su::PoolNode("str", 3), d.GetAllocator());
      if (d.Size() > 1) d.Erase(0, 1);
    }
    if (tickets) ticket(tid);
    std::string dump = d.Dump();
    digest = vf::hash_str(dump, digest);
    // on-demand + lazy update + schema on private buffers
    StringView target;
    JsonPointer jp;
    if (d.IsObject() && d.Size()) {  // the last key: the scanner walks over (and decodes) every key before it
      auto last = d.MemberBegin() + (d.Size() - 1);
      jp.push_back(JsonPointerNode(std::string(last->name.GetStringView().data(), last->name.Size())));
    }
    ParseResult pr = GetOnDemand(StringView(dump.data(), dump.size()), jp, target);
    digest = vf::hash_combine(digest, (uint64_t)pr.Error() * 1000003 + target.size());
    if (tickets) ticket(tid);
    std::string merged = UpdateLazy(StringView(dump.data(), dump.size()), StringView("{\"zz\":[1,2,3],\"added\":{\"x\":1}}"));
    digest = vf::hash_str(merged, digest);
    su::SimpleDoc sd;
    sd.Parse(dump.data(), dump.size());
    if (!sd.HasParseError()) {
      sd.ParseSchema(merged.data(), merged.size());
      digest = vf::hash_str(sd.HasParseError() ? std::string("err") : sd.Dump(), digest);
    }
    if (tickets) ticket(tid);
  }
  return digest;
}

static void w1(uint64_t i, vf::Rng& r) {
  c_w1.add();
  c_runs.add();
  vf::eval();
  unsigned T = nthreads(r);
  uint64_t seed = r.next();
  vf::note("W1 own documents");
  vf::witness("W1: " + std::to_string(T) + " threads, each parse/mutate/serialise/on-demand/UpdateLazy/ParseSchema on 12 own documents, work seed " + std::to_string(seed));
  std::vector<uint64_t> expect(T), got(T);
  reset_tickets();
  std::vector<std::thread> th;
  for (unsigned t = 0; t < T; t++) th.emplace_back([&, t] { got[t] = w1_thread_work(seed, t, true); });
  for (auto& x : th) x.join();
  // single-threaded reference AFTER the team: whatever the library initialises on first use is first used concurrently
  for (unsigned t = 0; t < T; t++) expect[t] = w1_thread_work(seed, t, false);
  c_threads.add(T);
  account_interleaving(T * 12 * 4);
  for (unsigned t = 0; t < T; t++)
    if (got[t] != expect[t]) vf::violation("W1:thread-result-differs-from-single-threaded", "thread " + std::to_string(t) + " of " + std::to_string(T) + " seed " + std::to_string(seed));
  (void)i;
}

// ------------------------------------------------------------------ W2: one shared read-only document
template <class NodeT>
static uint64_t read_everything(const NodeT& n, unsigned tid, bool tickets, int depth = 0) {
  uint64_t h = (uint64_t)n.GetType();
  if (n.IsNull() || n.IsBool()) return h;
  if (n.IsNumber()) return vf::hash_combine(h, n.IsDouble() ? (uint64_t)n.GetDouble() : n.IsUint64() ? n.GetUint64() : (uint64_t)n.GetInt64());
  if (n.IsString()) return vf::hash_bytes(n.GetStringView().data(), n.Size(), h);
  if (n.IsArray()) {
    for (auto it = n.Begin(); it != n.End(); ++it) h = vf::hash_combine(h, read_everything(*it, tid, tickets, depth + 1));
    if (!n.Empty()) h = vf::hash_combine(h, (uint64_t)n.Back().GetType() + n.Capacity());
    return h;
  }
  for (auto it = n.MemberBegin(); it != n.MemberEnd(); ++it) {
    StringView k = it->name.GetStringView();
    auto f = n.FindMember(k);
    h = vf::hash_combine(h, (uint64_t)(f - n.MemberBegin()));
    auto f2 = n.FindMember(k.data(), k.size());
    h = vf::hash_combine(h, (uint64_t)(f2 - n.MemberBegin()));
    h = vf::hash_combine(h, n.HasMember(k));
    h = vf::hash_combine(h, (uint64_t)n[k].GetType());
    h = vf::hash_combine(h, read_everything(it->value, tid, tickets, depth + 1));
  }
  // missing keys: must answer null without touching shared state
  h = vf::hash_combine(h, n["this key does not exist"].IsNull());
  h = vf::hash_combine(h, n.HasMember("nor does this one"));
  h = vf::hash_combine(h, n.FindMember("absent") == n.MemberEnd());
  if (tickets && depth < 2) ticket(tid);
  return h;
}

static void w2(uint64_t i, vf::Rng& r) {
  c_w2.add();
  c_w2_missing.add();
  c_runs.add();
  vf::eval();
  unsigned T = nthreads(r);
  bool with_map = i & 1;
  if (with_map) c_w2_map.add();
  vf::note(with_map ? "W2 shared document with map" : "W2 shared document");
  jm::GenOpts go;
  go.max_depth = 4;
  go.max_members = 10;
  JVal v = JVal::obj();
  for (int k = 0; k < 6; k++) v.o.emplace_back("member" + std::to_string(k), jm::gen_value(r, go, 1));
  jm::RenderOpts ro;
  std::string text = jm::render(v, r, ro);
  su::PoolDoc shared;
  shared.Parse(text.data(), text.size());
  if (shared.HasParseError()) return;
  vf::witness("W2: " + std::to_string(T) + " reader threads" + (with_map ? " (lookup maps built)" : "") + " on shared document " + text);
  if (with_map) {
    shared.CreateMap(shared.GetAllocator());
    for (auto it = shared.MemberBegin(); it != shared.MemberEnd(); ++it)
      if (it->value.IsObject()) it->value.CreateMap(shared.GetAllocator());
  }
  su::PoolDoc twin;
  twin.Parse(text.data(), text.size());
  const su::PoolDoc& cs = shared;
  const su::PoolDoc& ct = twin;
  reset_tickets();
  std::vector<uint64_t> got(T);
  std::vector<std::string> dumps(T);
  std::vector<int> eqs(T);
  std::vector<std::thread> th;
  JsonPointer jp;
  jp.push_back(JsonPointerNode(std::string("member0")));
  for (unsigned t = 0; t < T; t++)
    th.emplace_back([&, t] {
      for (int rep = 0; rep < 3; rep++) {
        got[t] = read_everything(static_cast<const su::PoolNode&>(cs), t, true);
        WriteBuffer wb;
        cs.Serialize(wb);
        dumps[t] = std::string(wb.ToString(), wb.Size());
        ticket(t);
        eqs[t] = (cs == ct) && !(cs != ct) && cs.AtPointer(jp) != nullptr && cs.AtPointer("member1") != nullptr && cs.AtPointer("nope") == nullptr;
        ticket(t);
        // a private deep copy taken from the shared document while the others read it
        {
          su::PoolDoc mine;
          mine.CopyFrom(cs, mine.GetAllocator());
          if (!(mine == cs) || mine.Dump() != dumps[t]) eqs[t] = 0;
          // and on-demand extraction from the shared text
          StringView target;
          ParseResult pr = GetOnDemand(StringView(text.data(), text.size()), jp, target);
          if (pr.Error() != kErrorNone || target.empty()) eqs[t] = 0;
        }
        ticket(t);
      }
    });
  for (auto& x : th) x.join();
  // reference values after the team (the shared document is const throughout)
  uint64_t expect = read_everything(static_cast<const su::PoolNode&>(cs), 0, false);
  std::string expect_dump = cs.Dump();
  c_threads.add(T);
  account_interleaving(T * 3 * 9);
  for (unsigned t = 0; t < T; t++) {
    if (got[t] != expect) vf::violation("W2:reader-saw-different-content", "thread " + std::to_string(t));
    if (dumps[t] != expect_dump) vf::violation("W2:reader-serialised-different-text", "thread " + std::to_string(t));
    if (!eqs[t]) vf::violation("W2:equality-pointer-lookup-copy-or-on-demand-wrong", "thread " + std::to_string(t));
  }
}

// ------------------------------------------------------------------ W0: cold start
// A forked child starts a team at once: every thread performs the same operations in the same order, so whatever the
// library sets up on first use (tables, caches, statics) is first used by all threads together.  The operation that
// comes first rotates with the case index.  ThreadSanitizer reports of the child arrive on the shared stderr and make
// it exit with 66; the parent then exits with 66 after its workload so that the driver reads the report blocks.
static bool g_child_reports = false;
static uint64_t cold_ops(uint64_t seed, unsigned rot) {
  vf::Rng r(seed, 99, 0);
  static const char* kText =
      "{\"pl\\u0061in\":\"a\\nb\\\"c\\\\d\\u00e9\\ud83d\\ude00\",\"esc\\tkey\":[1,-2,3.25,1e300,0.1,123456789012345678901234567890,18446744073709551615,-9223372036854775808,"
      "2.2250738585072011e-308,1.7976931348623157e308],\"obj\":{\"k\\/1\":null,\"k2\":true,\"k3\":false,\"k4\":{\"deep\":[[],{}]}},"
      "\"long\":\"0123456789abcdef0123456789abcdef0123456789abcdef0123456789abcdef\\r\\n\",\"last\\b\":\"\\u0001\"}";
  std::string text = kText;
  uint64_t h = 0;
  for (unsigned step = 0; step < 7; step++) {
    switch ((step + rot) % 7) {
      case 0: {  // Parse + Dump (decode escapes, quote them again, numbers both ways)
        su::PoolDoc d;
        d.Parse(text.data(), text.size());
        h = vf::hash_combine(h, (uint64_t)d.GetParseError());
        if (!d.HasParseError()) h = vf::hash_str(d.Dump(), h);
        break;
      }
      case 1: {  // API-built document with strings needing every escape, serialised
        su::SimpleDoc d;
        d.SetObject();
        std::string k, v;
        for (int c = 0; c < 0x30; c++) v += (char)c;
        v += "\"\\\x7f\xc3\xa9";
        k = "key\n\"";
        d.AddMember(StringView(k), su::SimpleNode(v.data(), v.size(), d.GetAllocator()), d.GetAllocator());
        d.AddMember("dbl", su::SimpleNode(r.coin() ? 5e-324 : 0.3), d.GetAllocator());
        WriteBuffer wb;
        h = vf::hash_combine(h, (uint64_t)d.Serialize(wb));
        h = vf::hash_bytes(wb.ToString(), wb.Size(), h);
        break;
      }
      case 2: {  // on-demand to the last key, walking over escaped keys
        JsonPointer jp;
        jp.push_back(JsonPointerNode(std::string("last\b")));
        StringView target;
        ParseResult pr = GetOnDemand(StringView(text.data(), text.size()), jp, target);
        h = vf::hash_combine(h, (uint64_t)pr.Error() * 7919 + target.size());
        JsonPointer jp2;
        jp2.push_back(JsonPointerNode(std::string("obj")));
        jp2.push_back(JsonPointerNode(std::string("k4")));
        jp2.push_back(JsonPointerNode(std::string("deep")));
        jp2.push_back(JsonPointerNode(1));
        pr = GetOnDemand(StringView(text.data(), text.size()), jp2, target);
        h = vf::hash_combine(h, (uint64_t)pr.Error() * 7919 + target.size());
        break;
      }
      case 3: {  // UpdateLazy with keys spelled differently on the two sides
        std::string m = UpdateLazy(StringView(text.data(), text.size()), StringView("{\"plain\":{\"x\":1},\"obj\":{\"k\\u002f1\":[1]},\"new\":2}"));
        h = vf::hash_str(m, h);
        break;
      }
      case 4: {  // ParseSchema
        su::SimpleDoc d;
        d.Parse("{\"plain\":null,\"obj\":{\"k2\":null,\"k4\":{}},\"esc\\tkey\":[],\"absent\":1}");
        d.ParseSchema(text.data(), text.size());
        h = vf::hash_str(d.HasParseError() ? std::string("err") : d.Dump(), h);
        break;
      }
      case 5: {  // lookup map, lookups, pointer, equality
        su::PoolDoc d, e;
        d.Parse(text.data(), text.size());
        e.Parse(text.data(), text.size());
        if (!d.HasParseError() && d.IsObject()) {
          d.CreateMap(d.GetAllocator());
          h = vf::hash_combine(h, (uint64_t)(d.FindMember("obj") - d.MemberBegin()));
          h = vf::hash_combine(h, d["nope"].IsNull());
          h = vf::hash_combine(h, d.AtPointer("obj", "k4", "deep", 0) != nullptr);
          h = vf::hash_combine(h, d == e);
        }
        break;
      }
      default: {  // an invalid text: error path, error formatting
        su::PoolDoc d;
        d.Parse("{\"a\":[1,2,}");
        h = vf::hash_combine(h, (uint64_t)d.GetParseError() * 31 + d.GetErrorOffset());
        h = vf::hash_str(ErrorMsg(d.GetParseError()), h);
      }
    }
  }
  return h;
}

static void w0(uint64_t i, vf::Rng& r) {
  c_w0.add();
  c_runs.add();
  vf::eval();
  unsigned T = nthreads(r), rot = (unsigned)(i % 7);
  uint64_t seed = r.next();
  vf::distinct(vf::hash_combine(seed, rot));
  vf::note("W0 cold start");
  vf::witness("W0: forked child, " + std::to_string(T) + " threads released together, same 7 operations each, first operation #" + std::to_string(rot));
  fflush(nullptr);
  pid_t pid = fork();
  if (pid < 0) {
    vf::count("harness:fork-failed");
    return;
  }
  if (pid == 0) {
    alarm(60);
    std::atomic<unsigned> ready{0};
    std::atomic<bool> go{false};
    std::vector<uint64_t> got(T);
    std::vector<std::thread> th;
    for (unsigned t = 0; t < T; t++)
      th.emplace_back([&, t] {
        ready.fetch_add(1);
        while (!go.load(std::memory_order_acquire)) {
        }
        got[t] = cold_ops(seed, rot);
      });
    while (ready.load() < T) {
    }
    go.store(true, std::memory_order_release);
    for (auto& x : th) x.join();
    uint64_t ref = cold_ops(seed, rot);
    for (unsigned t = 0; t < T; t++)
      if (got[t] != ref) {
        fprintf(stderr, "W0 child: thread %u computed %016lx, single-threaded run %016lx\n", t, (unsigned long)got[t], (unsigned long)ref);
        _exit(3);
      }
    _exit(0);  // ThreadSanitizer turns this into 66 when it has printed reports
  }
  int st = 0;
  while (waitpid(pid, &st, 0) < 0 && errno == EINTR) {
  }
  c_threads.add(T);
  c_ops.add(T * 7);
  if (WIFEXITED(st) && WEXITSTATUS(st) == 0) return;
  if (WIFEXITED(st) && WEXITSTATUS(st) == 66) {
    g_child_reports = true;
    return;
  }
  if (WIFEXITED(st) && WEXITSTATUS(st) == 3) vf::violation("W0:cold-start-thread-result-differs-from-single-threaded", "first operation #" + std::to_string(rot) + ", " + std::to_string(T) + " threads");
  else if (WIFSIGNALED(st) && WTERMSIG(st) == SIGALRM) vf::violation("W0:cold-start-team-hung", "first operation #" + std::to_string(rot));
  else vf::violation("W0:cold-start-child-died", "wait status " + std::to_string(st) + ", first operation #" + std::to_string(rot));
}

// ------------------------------------------------------------------ W3: one pool shared by reference (locked allocator build)
#ifdef SONIC_LOCKED_ALLOCATOR
struct Blk {
  unsigned char* p;
  size_t n;
  unsigned char tag;
};
template <class HandleFor>
static void pool_storm(vf::Rng& r, unsigned T, HandleFor handle_for, const char* what) {
  std::vector<std::vector<Blk>> mine(T);
  uint64_t seed = r.next();
  reset_tickets();
  std::vector<std::thread> th;
  for (unsigned t = 0; t < T; t++)
    th.emplace_back([&, t] {
      vf::Rng tr(seed, 5, t);
      auto& pool = handle_for(t);
      for (int k = 0; k < 200; k++) {
        size_t n = tr.range(1, tr.below(10) == 0 ? 3000 : 120);
        unsigned char tag = (unsigned char)(t * 16 + (k & 15));
        if (!mine[t].empty() && tr.below(3) == 0) {
          Blk& b = mine[t][tr.below(mine[t].size())];
          size_t nn = b.n + tr.range(1, 64);
          unsigned char* q = (unsigned char*)pool.Realloc(b.p, b.n, nn);
          if (q) {
            memset(q + b.n, b.tag, nn - b.n);
            b.p = q;
            b.n = nn;
          }
        } else {
          unsigned char* p = (unsigned char*)pool.Malloc(n);
          if (p) {
            memset(p, tag, n);
            mine[t].push_back({p, n, tag});
          }
        }
        if ((k & 15) == 0) ticket(t);
      }
    });
  for (auto& x : th) x.join();
  c_threads.add(T);
  account_interleaving(T * 200);
  // post-join: blocks intact and pairwise disjoint
  std::vector<std::pair<uintptr_t, uintptr_t>> iv;
  for (unsigned t = 0; t < T; t++)
    for (auto& b : mine[t]) {
      for (size_t i = 0; i < b.n; i++)
        if (b.p[i] != b.tag) {
          vf::violation(std::string(what) + ":block-content-disturbed", "thread " + std::to_string(t) + " block of " + std::to_string(b.n) + " bytes, byte " + std::to_string(i));
          i = b.n;
        }
      if ((uintptr_t)b.p & 7) vf::violation(std::string(what) + ":misaligned-block", "thread " + std::to_string(t));
      iv.emplace_back((uintptr_t)b.p, (uintptr_t)b.p + b.n);
    }
  std::sort(iv.begin(), iv.end());
  for (size_t i = 1; i < iv.size(); i++)
    if (iv[i].first < iv[i - 1].second) {
      vf::violation(std::string(what) + ":blocks-overlap", "two live blocks from the shared pool overlap");
      break;
    }
}

static void w3(uint64_t i, vf::Rng& r) {
  c_w3.add();
  c_runs.add();
  vf::eval();
  unsigned T = nthreads(r);
  vf::note("W3 shared pool by reference");
  vf::witness("W3: " + std::to_string(T) + " threads x 200 Malloc/Realloc on one MemoryPoolAllocator shared by reference" + ((i & 1) ? " + one document per thread on a shared pool" : ""));
  {
    MemoryPoolAllocator<> pool(r.coin() ? 1024 : 65536);
    pool_storm(r, T, [&](unsigned) -> MemoryPoolAllocator<>& { return pool; }, "W3");
  }
  // documents that share one pool (passed by pointer): each thread builds and serialises its own document
  if (i & 1) {
    c_w3_docs.add();
    MemoryPoolAllocator<> pool;
    std::vector<std::string> out(T), expect(T);
    for (unsigned t = 0; t < T; t++) {
      std::string s = "[";
      for (unsigned k = 0; k < 60; k++) s += (k ? "," : "") + std::to_string(t * 1000 + k);
      expect[t] = s + ",{\"t\":\"" + std::string(40, (char)('a' + t % 26)) + "\"}]";
    }
    std::vector<int> parsed_bad(T, 0);
    std::vector<std::thread> th;
    for (unsigned t = 0; t < T; t++)
      th.emplace_back([&, t] {
        su::PoolDoc d(&pool);
        d.SetArray();
        for (unsigned k = 0; k < 60; k++) d.PushBack(su::PoolNode((uint64_t)(t * 1000 + k)), pool);
        su::PoolNode o;
        o.SetObject();
        std::string sv(40, (char)('a' + t % 26));
        o.AddMember("t", su::PoolNode(sv.data(), sv.size(), pool), pool);
        d.PushBack(std::move(o), pool);
        out[t] = d.Dump();
        // and a document parsed (then re-parsed) on the same shared pool: string buffers and nodes come from it too
        su::PoolDoc p(&pool);
        p.Parse(expect[t].data(), expect[t].size());
        if (p.HasParseError() || p.Dump() != expect[t]) parsed_bad[t] = 1;
        p.Parse(expect[(t + 1) % T].data(), expect[(t + 1) % T].size());
        if (p.HasParseError() || p.Dump() != expect[(t + 1) % T]) parsed_bad[t] = 1;
      });
    for (auto& x : th) x.join();
    c_threads.add(T);
    for (unsigned t = 0; t < T; t++)
      if (out[t] != expect[t]) vf::violation("W3:document-on-shared-pool-corrupted", "thread " + std::to_string(t) + ": " + vf::printable(out[t], 120));
    for (unsigned t = 0; t < T; t++)
      if (parsed_bad[t]) vf::violation("W3:document-parsed-on-shared-pool-corrupted", "thread " + std::to_string(t));
  }
}

// one pool reached through per-thread copies of the allocator handle
static void w3b(uint64_t, vf::Rng& r) {
  c_w3_copies.add();
  c_runs.add();
  vf::eval();
  unsigned T = nthreads(r);
  vf::note("W3b shared pool through handle copies");
  vf::witness("W3b: " + std::to_string(T) + " threads x 200 Malloc/Realloc, each through its own copy of one pool's handle");
  MemoryPoolAllocator<> pool(1024);
  std::vector<std::unique_ptr<MemoryPoolAllocator<>>> copies;
  for (unsigned t = 0; t < T; t++) copies.emplace_back(new MemoryPoolAllocator<>(pool));
  pool_storm(r, T, [&](unsigned t) -> MemoryPoolAllocator<>& { return *copies[t]; }, "W3b");
}
#endif

int main(int argc, char** argv) {
  std::vector<vf::Stream> S;
  S.push_back({"W0_cold_start", 56, 700, w0});
  S.push_back({"W1_own_documents", 48, 800, w1});
  S.push_back({"W2_shared_readonly", 64, 800, w2});
#ifdef SONIC_LOCKED_ALLOCATOR
  S.push_back({"W3_shared_pool_by_reference", 48, 800, w3});
  S.push_back({"W3b_shared_pool_handle_copies", 16, 200, w3b});
#endif
  vf::args().case_timeout = 40;  // a team run takes well under a second; stuck threads are a finding, not a wait
  int rc = vf::run(argc, argv, S);
  if (rc == 0 && g_child_reports) return 66;
  return rc;
}
