// number_harness.cpp -- C04: every JSON number parses to the exact integer kind or to the
// correctly rounded double; overflow is rejected with kParseErrorInfinity.
// Oracle: exact decimal comparison for integer kinds, glibc strtod (correctly rounded,
// cross-checked against std::from_chars in stream `oracle_selftest`) for doubles.
// Table audit: kPow10M128Tab, kPow10Tab, LSHIFT_TAB recomputed with GMP from the live tables.
#include <gmp.h>

#include <cfloat>
#include <charconv>

#include "common/jmodel.h"
#include "common/sonic_util.h"
#include "common/vf.h"

using jm::JVal;
using namespace sonic_json;

static vf::Counter c_num("numbers-judged"), c_int("expected:integer-kind"), c_dbl("expected:double"), c_inf("expected:overflow-rejected"),
    c_sub("expected:subnormal"), c_zero("expected:zero-double"), c_root("context:root(EOF-terminated)"), c_arr("context:array-element"), c_schema("context:through-ParseSchema-onto-a-declared-key"),
    c_obj("context:object-value"), c_batch("batched-array-parses");

static std::string bits_hex(uint64_t u) {
  char b[32];
  snprintf(b, sizeof b, "%016llx", (unsigned long long)u);
  return b;
}

struct Expect {
  bool overflow = false;
  JVal v;
};
static bool expect_of(const std::string& tok, Expect& e) {
  size_t i = 0;
  bool is_int;
  if (!jm::ref_number_span((const unsigned char*)tok.data(), tok.size(), i, is_int) || i != tok.size()) return false;
  e.overflow = !jm::ref_number_value(tok.data(), tok.size(), is_int, e.v);
  return true;
}

template <class NodeT>
static bool node_matches(const NodeT& n, const JVal& want, std::string& got_desc) {
  JVal got;
  std::string why;
  if (!su::read_node(n, got, why)) {
    got_desc = "accessor inconsistency: " + why;
    return false;
  }
  got_desc = jm::describe(got);
  return jm::equal(got, want);
}

static std::string shape_of(const std::string& tok) {
  // structural signature of a number spelling: sign, integer digits, fraction digits, exponent
  size_t i = 0;
  std::string s;
  if (tok[i] == '-') { s += "-"; i++; }
  size_t a = i;
  while (i < tok.size() && isdigit((unsigned char)tok[i])) i++;
  size_t nint = i - a;
  s += "int" + std::string(nint > 19 ? ">19" : nint == 19 ? "=19" : nint >= 17 ? "17-18" : "<17");
  if (i < tok.size() && tok[i] == '.') {
    i++;
    a = i;
    while (i < tok.size() && isdigit((unsigned char)tok[i])) i++;
    size_t nf = i - a;
    s += ",frac" + std::string(nint + nf > 19 ? ">19sig" : nint + nf > 17 ? "18-19sig" : "<=17sig");
  }
  if (i < tok.size() && (tok[i] == 'e' || tok[i] == 'E')) s += ",exp";
  return s;
}

static void report(const char* what, const std::string& tok, const std::string& ctx, const Expect& e, const std::string& got) {
  std::string want = e.overflow ? "rejection with kParseErrorInfinity" : jm::describe(e.v);
  std::string cls;
  if (e.overflow) cls = "overflow";
  else if (e.v.k == JVal::Dbl) {
    uint64_t ex = (e.v.u >> 52) & 0x7ff;
    cls = ex == 0 ? ((e.v.u << 1) == 0 ? "zero" : "subnormal") : "normal";
  } else cls = jm::kind_name(e.v.k);
  vf::violation(std::string(what) + ":" + cls + ":" + shape_of(tok), ctx + ": number " + vf::printable(tok, 120) + " -> " + got + ", expected " + want);
}

// one number, one context, one parse
template <class Doc>
static void judge_single(const std::string& tok, int context, const Expect& e) {
  std::string text;
  switch (context) {
    case 0: text = tok; c_root.add(); break;
    case 1: text = "[" + tok + "]"; c_arr.add(); break;
    case 2: text = "{\"k\":" + tok + "}"; c_obj.add(); break;
    case 3: text = "[" + tok + " , 1]"; c_arr.add(); break;
    case 4: text = tok + " \n"; c_root.add(); break;
    case 6: text = "{\"k\":" + tok + "}"; c_schema.add(); break;  // through ParseSchema onto {"k":null}
    default: text = "[0," + tok + "]"; c_arr.add(); break;
  }
  char* buf = (char*)malloc(text.size() ? text.size() : 1);
  memcpy(buf, text.data(), text.size());
  Doc d;
  if (context == 6) {
    d.Parse("{\"k\":null}", 10);
    d.ParseSchema(buf, text.size());
  } else {
    d.Parse(buf, text.size());
  }
  free(buf);
  std::string ctx = "context " + std::to_string(context);
  if (e.overflow) {
    if (!d.HasParseError())
      report("overflow-accepted", tok, ctx, e, "accepted as " + d.Dump());
    else if (d.GetParseError() != kParseErrorInfinity)
      report("overflow-wrong-code", tok, ctx, e, std::string("error code ") + std::to_string((int)d.GetParseError()));
    return;
  }
  if (d.HasParseError()) {
    report("finite-rejected", tok, ctx, e, "error code " + std::to_string((int)d.GetParseError()) + " at " + std::to_string(d.GetErrorOffset()));
    return;
  }
  const typename Doc::NodeType* n = &d;
  if (context == 1 || context == 3) n = &d[0];
  else if (context == 2 || context == 6) n = &d["k"];
  else if (context == 5) n = &d[1];
  std::string got;
  if (!node_matches(*n, e.v, got)) report("wrong-value", tok, ctx, e, got);
}

static void account(const std::string& tok, const Expect& e) {
  c_num.add();
  vf::eval();
  vf::distinct(vf::hash_str(tok));
  if (e.overflow) c_inf.add();
  else if (e.v.k == JVal::Dbl) {
    c_dbl.add();
    uint64_t ex = (e.v.u >> 52) & 0x7ff;
    if (ex == 0) { if ((e.v.u << 1) == 0) c_zero.add(); else c_sub.add(); }
  } else c_int.add();
}

// pending batch of finite numbers parsed together as one array
static std::vector<std::pair<std::string, Expect>> g_batch;
static void flush_batch() {
  if (g_batch.empty()) return;
  c_batch.add();
  std::string text = "[";
  for (size_t i = 0; i < g_batch.size(); i++) {
    if (i) text += (i % 3 == 0) ? " ,\n" : ",";
    text += g_batch[i].first;
  }
  text += (g_batch.size() & 1) ? "]" : " ]";
  vf::witness(text);
  char* buf = (char*)malloc(text.size());
  memcpy(buf, text.data(), text.size());
  su::PoolDoc d;
  d.Parse(buf, text.size());
  free(buf);
  if (d.HasParseError() || !d.IsArray() || d.Size() != g_batch.size()) {
    // fall back to single judgement to find the culprit
    for (auto& p : g_batch) judge_single<su::PoolDoc>(p.first, 1, p.second);
  } else {
    size_t i = 0;
    for (auto it = d.Begin(); it != d.End(); ++it, ++i) {
      std::string got;
      if (!node_matches(*it, g_batch[i].second.v, got)) report("wrong-value", g_batch[i].first, "array batch", g_batch[i].second, got);
    }
  }
  g_batch.clear();
}

static void judge(const std::string& tok, vf::Rng& r) {
  Expect e;
  if (!expect_of(tok, e)) {
    vf::count("harness:generated-non-number");
    return;
  }
  account(tok, e);
  static const std::string s_over = "overflow", s_sub = "subnormal", s_int = "integer", s_dbl = "double";
  const std::string& cls = e.overflow ? s_over : e.v.k != JVal::Dbl ? s_int : (((e.v.u >> 52) & 0x7ff) == 0 ? s_sub : s_dbl);
  if (vf::want_sample(cls)) vf::sample(cls, tok);
  unsigned mode = (unsigned)r.below(8);
  if (e.overflow || mode < 3) {
    vf::witness(tok);
    int ctx = (int)r.below(7);
    judge_single<su::PoolDoc>(tok, ctx, e);
    if (mode == 0) judge_single<su::SimpleDoc>(tok, (ctx + 1) % 7, e);
    if (e.overflow) judge_single<su::PoolDoc>(tok, (ctx + 3) % 7, e);
  } else {
    g_batch.emplace_back(tok, e);
    if (g_batch.size() >= 24) flush_batch();
  }
}

// ------------------------------------------------------------------ generators
static std::string digits(vf::Rng& r, size_t n, bool nonzero_first = true) {
  std::string s;
  for (size_t i = 0; i < n; i++) s += (char)('0' + (i == 0 && nonzero_first ? 1 + r.below(9) : r.below(10)));
  return s;
}
static std::string exp_suffix(long e, vf::Rng& r) {
  char b[40];
  const char* sign = e < 0 ? "-" : (r.below(3) == 0 ? "+" : "");
  const char* zeros = r.below(8) == 0 ? "00" : "";
  snprintf(b, sizeof b, "%c%s%s%ld", r.below(4) == 0 ? 'E' : 'e', sign, zeros, e < 0 ? -e : e);
  return b;
}
// place a decimal point inside a digit string and compensate with the exponent
static std::string respell(const std::string& dig, long e10, vf::Rng& r) {
  // value = 0.dig * 10^e10 ... we use: dig as integer * 10^e10
  std::string s;
  switch (r.below(4)) {
    case 0: s = dig + exp_suffix(e10, r); break;
    case 1: {  // d.ddd e
      if (dig.size() < 2) { s = dig + exp_suffix(e10, r); break; }
      s = dig.substr(0, 1) + "." + dig.substr(1) + exp_suffix(e10 + (long)dig.size() - 1, r);
      break;
    }
    case 2: {  // point at random position
      if (dig.size() < 2) { s = dig + ".0" + exp_suffix(e10, r); break; }
      size_t p = r.range(1, dig.size() - 1);
      s = dig.substr(0, p) + "." + dig.substr(p) + exp_suffix(e10 + (long)(dig.size() - p), r);
      break;
    }
    default: {  // 0.000ddd e
      size_t z = r.below(5);
      s = "0." + std::string(z, '0') + dig + exp_suffix(e10 + (long)dig.size() + (long)z, r);
      break;
    }
  }
  return s;
}
static std::string maybe_neg(const std::string& s, vf::Rng& r) { return r.below(4) == 0 ? "-" + s : s; }

// exact decimal digits of a long double (glibc prints exactly), as (digits, exponent of last digit)
static void exact_decimal(long double x, std::string& dig, long& e10) {
  char buf[1400];
  snprintf(buf, sizeof buf, "%.1150Le", x);
  // d.ddddde[+-]xxx
  std::string s = buf;
  size_t epos = s.find('e');
  long ex = atol(s.c_str() + epos + 1);
  std::string m = s.substr(0, epos);
  std::string d;
  for (char c : m) if (isdigit((unsigned char)c)) d += c;
  while (d.size() > 1 && d.back() == '0') d.pop_back();
  dig = d;
  e10 = ex - (long)(d.size() - 1);
}

static double from_bits(uint64_t b) {
  double d;
  memcpy(&d, &b, 8);
  return d;
}
static uint64_t pick_double_bits(vf::Rng& r) {
  if (r.below(40) == 0) {  // the two ends of the scale: zero / smallest subnormals / largest subnormal / smallest normal / largest finite
    static const uint64_t ends[] = {0, 1, 2, 3, 0x000ffffffffffffeULL, 0x000fffffffffffffULL, 0x0010000000000000ULL, 0x0010000000000001ULL, 0x7feffffffffffffeULL, 0x7fefffffffffffffULL};
    return ends[r.below(10)];
  }
  switch (r.below(8)) {
    case 0: return r.below(0x0010000000000000ULL);                                    // subnormal
    case 1: return (r.range(1, 2046) << 52) | (r.coin() ? 0 : 0x000fffffffffffffULL);  // binade edges
    case 2: return (r.range(1, 2046) << 52) | r.below(4);
    case 3: return (r.range(1, 2046) << 52) | (0x000fffffffffffffULL - r.below(4));
    case 4: return (r.range(1000, 1100) << 52) | (r.next() & 0x000fffffffffffffULL);  // around 1
    default: {
      uint64_t b;
      do b = r.next() & 0x7fffffffffffffffULL; while (((b >> 52) & 0x7ff) == 0x7ff);
      return b;
    }
  }
}

// ------------------------------------------------------------------ table audit (GMP)
namespace sonic_json { namespace internal {} }
static void audit_tables() {
  using namespace sonic_json::internal;
  mpz_t n, p, q, two;
  mpz_inits(n, p, q, two, NULL);
  uint64_t rows = 0;
  for (int e = -348; e <= 347; e++) {  // rows used by the code: AtofEiselLemire64 rejects exp10 > 347; row 696 is padding
    vf::eval();
    rows++;
    // m = floor(10^e * 2^k) with 2^127 <= m < 2^128
    if (e >= 0) {
      mpz_ui_pow_ui(n, 10, e);
      size_t bits = mpz_sizeinbase(n, 2);
      if (bits <= 128) mpz_mul_2exp(q, n, 128 - bits);
      else mpz_fdiv_q_2exp(q, n, bits - 128);
    } else {
      mpz_ui_pow_ui(p, 10, -e);
      size_t b = mpz_sizeinbase(p, 2);
      mpz_set_ui(two, 1);
      mpz_mul_2exp(two, two, 127 + b);
      mpz_fdiv_q(q, two, p);
      if (mpz_sizeinbase(q, 2) > 128) {
        mpz_set_ui(two, 1);
        mpz_mul_2exp(two, two, 126 + b);
        mpz_fdiv_q(q, two, p);
      }
    }
    uint64_t lo = mpz_get_ui(q);
    mpz_fdiv_q_2exp(n, q, 64);
    uint64_t hi = mpz_get_ui(n);
    const uint64_t* row = kPow10M128Tab[e + 348];
    if (row[0] != lo || row[1] != hi) {
      // negative powers might legitimately be stored rounded up (reciprocal tables); accept
      // floor+1 only if that is what *every* inexact negative row does -- recorded, decided below
      bool plus1 = (row[1] == hi && row[0] == lo + 1) || (lo == UINT64_MAX && row[0] == 0 && row[1] == hi + 1);
      vf::count(plus1 ? "audit:pow10m128-row-is-floor+1" : "audit:pow10m128-row-differs");
      if (!plus1)
        vf::violation("table-audit:kPow10M128Tab", "row for 1e" + std::to_string(e) + " is {" + bits_hex(row[0]) + "," + bits_hex(row[1]) +
                                                       "}, floor(10^e*2^k) normalised to 128 bits is {" + bits_hex(lo) + "," + bits_hex(hi) + "}");
      else
        vf::violation("table-audit:kPow10M128Tab-rounding", "row for 1e" + std::to_string(e) + " is the floor value plus one");
    } else {
      vf::count("audit:pow10m128-row-exact-floor");
    }
  }
  vf::distinct_enum(rows);
  for (int e = 0; e <= 22; e++) {
    vf::eval();
    mpz_ui_pow_ui(n, 10, e);
    double want = mpz_get_d(n);  // exact for e<=22
    if (kPow10Tab[e] != want) vf::violation("table-audit:kPow10Tab", "entry " + std::to_string(e));
    vf::count("audit:pow10tab-entries");
  }
  vf::distinct_enum(23);
  for (int k = 0; k <= 60; k++) {
    vf::eval();
    mpz_ui_pow_ui(n, 5, k);
    char* s5 = mpz_get_str(NULL, 10, n);
    mpz_ui_pow_ui(p, 2, k);
    char* s2 = mpz_get_str(NULL, 10, p);
    int want_delta = k == 0 ? 0 : (int)strlen(s2);
    std::string want_cut = k == 0 ? "" : s5;
    if (LSHIFT_TAB[k].delta != want_delta || want_cut != LSHIFT_TAB[k].cutoff)
      vf::violation("table-audit:LSHIFT_TAB", "row " + std::to_string(k) + " is {" + std::to_string(LSHIFT_TAB[k].delta) + ",\"" +
                                                  LSHIFT_TAB[k].cutoff + "\"}, expected {" + std::to_string(want_delta) + ",\"" + want_cut + "\"}");
    vf::count("audit:lshift-rows");
    free(s5);
    free(s2);
  }
  vf::distinct_enum(61);
  mpz_clears(n, p, q, two, NULL);
}

// exact decimal expansion of the overflow threshold 2^1024 - 2^970 (ties round to even = infinity)
static std::string threshold_digits() {
  mpz_t a, b;
  mpz_inits(a, b, NULL);
  mpz_ui_pow_ui(a, 2, 1024);
  mpz_ui_pow_ui(b, 2, 970);
  mpz_sub(a, a, b);
  char* s = mpz_get_str(NULL, 10, a);
  std::string r = s;
  free(s);
  mpz_clears(a, b, NULL);
  return r;  // 309 digits
}

#ifndef VF_FUZZ_TARGET
int main(int argc, char** argv) {
  std::vector<vf::Stream> S;

  S.push_back({"table_audit", 1, 1, [](uint64_t, vf::Rng&) { audit_tables(); }, false});

  // strtod vs std::from_chars on the spellings the harness uses (oracle self-test; a disagreement
  // is a harness problem, reported under its own key)
  S.push_back({"oracle_selftest", 20000, 400000, [](uint64_t, vf::Rng& r) {
                 std::string t = jm::gen_number_text(r);
                 double a = strtod(t.c_str(), nullptr), b = 0;
                 auto res = std::from_chars(t.data(), t.data() + t.size(), b);
                 vf::eval();
                 if (res.ec == std::errc::result_out_of_range) return;  // from_chars reports range errors differently
                 if (res.ec != std::errc() || memcmp(&a, &b, 8) != 0)
                   vf::violation("harness:oracle-disagreement", "strtod and from_chars disagree on " + t);
               }});

  S.push_back({"integer_edges", 4000, 400000, [](uint64_t i, vf::Rng& r) {
                 std::string t;
                 switch (i % 6) {
                   case 0: {  // 10^k +- small
                     int k = (int)r.range(0, 25);
                     mpz_t n;
                     mpz_init(n);
                     mpz_ui_pow_ui(n, 10, k);
                     long d = (long)r.range(0, 4) - 2;
                     if (d >= 0) mpz_add_ui(n, n, d); else mpz_sub_ui(n, n, -d);
                     if (mpz_sgn(n) < 0) mpz_neg(n, n);
                     char* s = mpz_get_str(NULL, 10, n);
                     t = s;
                     free(s);
                     mpz_clear(n);
                     break;
                   }
                   case 1: {  // 2^63, 2^64 neighbourhood
                     mpz_t n;
                     mpz_init(n);
                     mpz_ui_pow_ui(n, 2, r.coin() ? 63 : 64);
                     long d = (long)r.range(0, 6) - 3;
                     if (d >= 0) mpz_add_ui(n, n, d); else mpz_sub_ui(n, n, -d);
                     char* s = mpz_get_str(NULL, 10, n);
                     t = s;
                     free(s);
                     mpz_clear(n);
                     break;
                   }
                   case 2: t = std::to_string(r.next()); break;
                   case 3: t = digits(r, r.range(1, 25)); break;
                   case 4: t = digits(r, r.range(18, 21)); break;
                   default: {  // 2^k +- 1
                     mpz_t n;
                     mpz_init(n);
                     mpz_ui_pow_ui(n, 2, r.range(0, 70));
                     if (r.coin()) mpz_add_ui(n, n, 1); else if (mpz_cmp_ui(n, 1) > 0) mpz_sub_ui(n, n, 1);
                     char* s = mpz_get_str(NULL, 10, n);
                     t = s;
                     free(s);
                     mpz_clear(n);
                   }
                 }
                 if (r.below(3) == 0) t = "-" + t;
                 judge(t, r);
               }});

  S.push_back({"random_doubles_spellings", 60000, 6000000, [](uint64_t, vf::Rng& r) {
                 double d = from_bits(pick_double_bits(r));
                 char b[420];
                 switch (r.below(6)) {
                   case 0: snprintf(b, sizeof b, "%.*e", (int)r.below(25), d); break;
                   case 1: snprintf(b, sizeof b, "%.17g", d); break;
                   case 2: {
                     auto res = std::to_chars(b, b + sizeof b, d);
                     *res.ptr = 0;
                     break;
                   }
                   case 3:
                     if (fabs(d) < 1e40 && fabs(d) > 1e-30) snprintf(b, sizeof b, "%.*f", (int)r.below(40), d);
                     else snprintf(b, sizeof b, "%.16e", d);
                     break;
                   case 4: snprintf(b, sizeof b, "%.*E", (int)r.range(14, 19), d); break;
                   default: snprintf(b, sizeof b, "%.*g", (int)r.range(1, 30), d); break;
                 }
                 std::string t = b;
                 if (t == "inf" || t == "nan" || t == "-nan") return;
                 // printf may produce "1e+05": already valid JSON; ensure no leading '+' and no "inf"
                 judge(maybe_neg(t[0] == '-' ? t.substr(1) : t, r), r);
               }});

  // exact halfway points between adjacent doubles, and just-off-halfway
  S.push_back({"halfway", 20000, 2000000, [](uint64_t, vf::Rng& r) {
                 uint64_t b = pick_double_bits(r);
                 if (((b >> 52) & 0x7ff) == 0x7fe && (b & 0x000fffffffffffffULL) == 0x000fffffffffffffULL) b--;  // keep next finite
                 long double lo = from_bits(b), hi = from_bits(b + 1);
                 long double mid = lo + (hi - lo) / 2;  // exact in 64-bit significand
                 std::string dig;
                 long e10;
                 exact_decimal(mid, dig, e10);
                 std::string base;
                 switch (r.below(3)) {
                   case 0: base = dig; break;                       // exact tie
                   case 1: base = dig + std::string(r.below(3), '0') + "1"; e10 -= (long)(base.size() - dig.size()); break;  // just above
                   default: {                                       // just below: last digit - 1, then 9s
                     std::string d2 = dig;
                     size_t k = d2.size() - 1;
                     while (d2[k] == '0') { d2[k] = '9'; k--; }
                     d2[k]--;
                     size_t nines = r.range(1, 4);
                     d2 += std::string(nines, '9');
                     e10 -= (long)nines;
                     base = d2;
                     if (base[0] == '0') base.erase(0, base.find_first_not_of('0'));
                     if (base.empty()) base = "0";
                   }
                 }
                 judge(maybe_neg(respell(base, e10, r), r), r);
               }});

  // an exact tie, then zeros up to and beyond the 800-digit capacity of the decimal fallback, then a tail whose non-zero
  // digit lies before / at / after the 800th significant digit and whose last digit is zero or not: "was anything
  // non-zero dropped" has to be sticky over all dropped digits
  S.push_back({"tie_then_tail_around_digit_800", 6000, 400000, [](uint64_t, vf::Rng& r) {
                 // moderate magnitudes (short exact expansion, padded with zeros) and, one time in three, any binade including
                 // subnormals (the exact expansion itself has up to 770 digits; the fallback then has to shift LEFT with a full buffer)
                 uint64_t b = ((uint64_t)(1023 + (long)r.range(0, 100) - 30) << 52) | (r.next() & 0x000fffffffffffffULL);
                 if (r.below(3) == 0) b = ((uint64_t)r.range(0, 2045) << 52) | (r.next() & 0x000fffffffffffffULL);
                 if (r.below(4) == 0) b = 0x4340000000000000ULL + r.below(4);  // 2^53 + ...: integer ties
                 if (r.below(40) == 0) b = r.below(4);                          // ties between 0 and the smallest subnormals
                 long double lo = from_bits(b), hi = from_bits(b + 1);
                 long double mid = lo + (hi - lo) / 2;
                 std::string dig;
                 long e10;
                 exact_decimal(mid, dig, e10);
                 static const char* tails[] = {"1", "10", "30", "100", "0001", "00010", "5000", "00", "9", "90", "000000000010", "00000000000000000000000000000070"};
                 std::string tail = tails[r.below(12)];
                 long target = (long)r.range(770, 840) - (long)dig.size() - (long)r.below(tail.size() + 1);
                 std::string zeros(target > 0 ? (size_t)target : 0, '0');
                 std::string base = dig + zeros + tail;
                 e10 -= (long)(zeros.size() + tail.size());
                 judge(maybe_neg(respell(base, e10, r), r), r);
               }});

  // decimals just below / at / above every power of two (rounded to 15..25 significant digits)
  S.push_back({"near_power_of_two", 2098 * 3, 2098 * 60, [](uint64_t i, vf::Rng& r) {
                 int k = (int)(i % 2098) - 1074;  // 2^k, k in [-1074, 1023]
                 long double p = ldexpl(1.0L, k);
                 static const int offs[] = {-55, -54, -53, -56, -60, 0};
                 int o = offs[r.below(6)];
                 long double x = o ? p * (1.0L - ldexpl(1.0L, o)) : p;
                 if (r.below(4) == 0 && o) x = p * (1.0L + ldexpl(1.0L, o - 1));
                 char b[80];
                 snprintf(b, sizeof b, "%.*Le", (int)r.range(14, 24), x);
                 judge(maybe_neg(b, r), r);
               }});

  // every row of the power-of-ten table: mantissas of 1..19 digits and truncated 20..40 digit ones
  S.push_back({"every_table_row", 801 * 24, 801 * 2400, [](uint64_t i, vf::Rng& r) {
                 long e = (long)(i % 801) - 400;
                 std::string m;
                 switch (r.below(9)) {
                   case 0: m = digits(r, r.range(1, 19)); break;
                   case 1: m = std::string(r.range(1, 19), '9'); break;
                   case 2: m = "1" + std::string(r.below(19), '0'); break;
                   case 3: m = r.coin() ? "9007199254740993" : "9007199254740991"; break;
                   case 4: m = digits(r, 19); break;
                   case 5: m = digits(r, r.range(20, 40)); break;
                   case 6: m = digits(r, 17); break;
                   case 7: m = std::to_string(r.next()); break;
                   default: m = digits(r, r.range(15, 18)); break;
                 }
                 std::string t = r.below(3) == 0 ? m + exp_suffix(e, r) : respell(m, e, r);
                 judge(maybe_neg(t, r), r);
               }});

  // integer part with more than 19 digits directly followed by an exponent (regression: fixed in 7267148)
  S.push_back({"long_integer_then_exponent", 20000, 2000000, [](uint64_t, vf::Rng& r) {
                 std::string m = digits(r, r.range(20, 45));
                 long e = (long)r.range(0, 660) - 330 - (long)m.size() / 2;
                 judge(maybe_neg(m + exp_suffix(e, r), r), r);
               }});

  S.push_back({"zero_spellings", 3000, 100000, [](uint64_t, vf::Rng& r) {
                 std::string t;
                 switch (r.below(6)) {
                   case 0: t = "0." + std::string(r.range(1, 2000), '0'); break;
                   case 1: t = "0e" + std::string(r.coin() ? "-" : "") + std::to_string(r.below(100000)); break;
                   case 2: t = "0." + std::string(r.range(1, 400), '0') + "e" + std::to_string(r.below(1000)); break;
                   case 3: t = digits(r, r.range(1, 19)) + "e-" + std::to_string(r.coin() ? r.range(400, 1000) : r.range(1000, 99999999999ULL)); break;
                   case 4: t = "0." + std::string(r.range(300, 1200), '0') + digits(r, r.range(1, 30)); break;
                   default: t = "0.0"; break;
                 }
                 judge(maybe_neg(t, r), r);
               }});

  S.push_back({"huge_mantissas", 3000, 100000, [](uint64_t, vf::Rng& r) {
                 size_t n = r.range(100, 2000);
                 std::string m = digits(r, n);
                 std::string t;
                 switch (r.below(4)) {
                   case 0: t = m; break;
                   case 1: t = m.substr(0, n / 2) + "." + m.substr(n / 2); break;
                   case 2: t = "0." + m + exp_suffix((long)r.range(0, 600) - 300, r); break;
                   default: t = m + exp_suffix(-(long)r.range(n - 320 > 0 ? n - 320 : 0, n + 320), r); break;
                 }
                 judge(maybe_neg(t, r), r);
               }});

  S.push_back({"exponent_accumulator", 3000, 100000, [](uint64_t, vf::Rng& r) {
                 static const char* ex[] = {"9999", "10000", "10001", "99999", "100000", "2147483647", "2147483648", "4294967296",
                                            "18446744073709551616", "99999999999999999999", "308", "309", "324", "325", "400"};
                 std::string m = r.coin() ? digits(r, r.range(1, 20)) : "1";
                 std::string t = m + (r.coin() ? "e" : "e-") + ex[r.below(15)];
                 if (r.below(3) == 0) t = "0." + std::string(r.below(400), '0') + m + "e" + std::to_string(r.below(800));
                 judge(maybe_neg(t, r), r);
               }});

  // around the overflow threshold 2^1024-2^970, in every spelling family
  S.push_back({"overflow_threshold", 6000, 300000, [](uint64_t, vf::Rng& r) {
                 static const std::string T = threshold_digits();  // 309 digits, value = 0.T * 10^309
                 size_t n = r.range(1, r.coin() ? 25 : 60);
                 std::string m = T.substr(0, n);
                 // perturb the last kept digit
                 int d = (int)r.range(0, 4) - 2;
                 int last = (m.back() - '0') + d;
                 if (last < 0) last = 0;
                 if (last > 9) last = 9;
                 m.back() = (char)('0' + last);
                 if (r.below(4) == 0) m += digits(r, r.range(1, 30), false);
                 long e10 = 309 - (long)m.size();  // m * 10^e10
                 std::string t;
                 switch (r.below(4)) {
                   case 0: t = m + exp_suffix(e10, r); break;  // integer mantissa (19 digits: e290)
                   case 1: t = m.substr(0, 1) + "." + (m.size() > 1 ? m.substr(1) : "0") + exp_suffix(308, r); break;
                   default: t = respell(m, e10, r); break;
                 }
                 if (r.below(6) == 0) {  // clearly larger
                   t = digits(r, r.range(1, 19)) + exp_suffix((long)r.range(289, 330), r);
                 }
                 judge(maybe_neg(t, r), r);
               }});

  S.push_back({"generator_numbers", 30000, 3000000, [](uint64_t, vf::Rng& r) { judge(jm::gen_number_text(r), r); }});

  // every case judges 16 numbers; finite ones are parsed together as one array and the batch is
  // flushed before the case ends (so a case is self-contained and replayable)
  for (auto& s : S) {
    if (s.name == "table_audit" || s.name == "oracle_selftest") continue;
    auto fn = s.fn;
    s.quick = (s.quick + 15) / 16;
    s.thorough = (s.thorough + 15) / 16;
    s.fn = [fn](uint64_t i, vf::Rng& r) {
      for (uint64_t j = 0; j < 16; j++) fn(i * 16 + j, r);
      flush_batch();
    };
  }
  int rc = vf::run(argc, argv, S);
  return rc;
}
#endif  // VF_FUZZ_TARGET
