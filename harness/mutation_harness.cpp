// mutation_harness.cpp -- C12 (mutation API == plain ordered containers), C13 (every allocation released
// exactly once, copies independent), C18 (document equality == JSON value equality).
//   --prop C12 | C13 | C18
// A lock-step model (array = vector, object = vector of pairs) is updated next to the library; after every
// operation the whole document is read back through the accessor API and through Dump()+reference parser.
#include <deque>
#include <functional>
#include <set>
#include <cmath>
#include <memory>

#include "common/jmodel.h"
#include "common/sonic_util.h"
#include "common/vf.h"
#include "sonic/experiment/lazy_update.h"

using jm::JVal;
using namespace sonic_json;
static std::string g_prop = "C12";

using IdxPath = std::vector<size_t>;

// stable storage for strings handed to the library without copy
static std::deque<std::string>& const_pool() {
  static std::deque<std::string> p;
  return p;
}
static const std::string& keep(const std::string& s) {
  auto& p = const_pool();
  // share storage between a string and its extensions, so that two const strings of different length may
  // start at the same address
  for (size_t i = p.size(); i-- > 0 && i + 8 > p.size();)
    if (p[i].size() >= s.size() && p[i].compare(0, s.size(), s) == 0) return p[i];
  p.push_back(s + "~tail-bytes-beyond-the-view");
  return p.back();
}

template <class NodeT>
static NodeT* node_at(NodeT& root, const IdxPath& p) {
  NodeT* n = &root;
  for (size_t i : p) {
    if (n->IsArray()) n = &(*n)[i];
    else n = &((n->MemberBegin() + i)->value);
  }
  return n;
}
static JVal* model_at(JVal& root, const IdxPath& p) {
  JVal* m = &root;
  for (size_t i : p) m = m->k == JVal::Arr ? &m->a[i] : &m->o[i].second;
  return m;
}
static bool is_prefix(const IdxPath& a, const IdxPath& b) {  // a is a (non-strict) prefix of b
  return a.size() <= b.size() && std::equal(a.begin(), a.end(), b.begin());
}
static IdxPath random_path(const JVal& root, vf::Rng& r, int want = -1 /* JVal::Kind or -1 */) {
  // random walk from the root; with `want`, returns a node of that kind if the walk met one
  IdxPath cur, best;
  const JVal* m = &root;
  bool have = false;
  if (want >= 0 && (int)m->k == want) have = true;
  for (;;) {
    size_t nchild = m->k == JVal::Arr ? m->a.size() : m->k == JVal::Obj ? m->o.size() : 0;
    if (!nchild) break;
    if (r.below(10) < 4 && (want < 0 || have)) break;
    size_t i = r.below(nchild);
    cur.push_back(i);
    m = m->k == JVal::Arr ? &m->a[i] : &m->o[i].second;
    if (want >= 0 && (int)m->k == want && (!have || r.coin())) {
      best = cur;
      have = true;
    }
  }
  if (want >= 0) return have ? best : cur;
  return cur;
}
static std::string path_desc(const IdxPath& p) {
  std::string s = "$";
  for (size_t i : p) s += "/" + std::to_string(i);
  return s;
}

static vf::Counter c_hist("histories"), c_ops("operations-checked"), c_map_create("op:CreateMap"), c_map_destroy("op:DestroyMap"), c_remove_tail_with_map("op:RemoveMember(tail)-while-map-exists"),
    c_remove_with_map("op:RemoveMember-while-map-exists"), c_erase_full("op:erase-full-or-empty-range"), c_grow0("op:growth-from-capacity-0"), c_move_sub("op:move-assign-from-own-subnode"),
    c_swap_sub("op:Swap-with-own-subnode"), c_copyfrom("op:CopyFrom"), c_dupkeys("histories-with-duplicate-keys(no-map)"), c_lookup("lookups-checked"), c_reserve_below("op:reserve-below-size"),
    c_clear_reuse("op:Clear-then-reuse"), c_atptr("AtPointer-checked"), c_parsed_init("histories-starting-from-a-parsed-document"), c_small_chunk("histories-on-a-small-chunk-pool(64..1024 bytes)"), c_alias("op:argument-aliases-the-target(own element / own value / own bytes)"),
    c_shared_pool("histories-with-both-documents-on-one-pool"), c_side_reparse("op:side-document-parsed-again"), c_move_across("op:node-moved-across-documents-of-one-pool"), c_rehome("op:parsed-string-moved-out-and-re-homed");

static JVal small_value(vf::Rng& r, int depth = 0) {
  switch (r.below(depth >= 2 ? 6 : 9)) {
    case 0: return JVal::null();
    case 1: return JVal::boolean(r.coin());
    case 2: {
      if (r.below(4) == 0) {  // powers of ten and two and their neighbours: digit-count and kind boundaries
        uint64_t p = 1;
        for (unsigned k = (unsigned)r.below(20); k; k--) p *= 10;
        if (r.coin()) p = 1ULL << r.below(64);
        return JVal::uint(p + r.below(3) - 1);
      }
      return JVal::uint(r.coin() ? r.below(100) : r.next());
    }
    case 3: {
      if (r.below(4) == 0) {
        int64_t p = 1;
        for (unsigned k = (unsigned)r.below(19); k; k--) p *= 10;
        return JVal::sint(-p - (int64_t)r.below(2));
      }
      return JVal::sint(-(int64_t)r.below(1000) - 1);
    }
    case 4: {
      if (r.below(4) == 0) {
        double p = 1;
        for (unsigned k = (unsigned)r.below(23); k; k--) p *= 10;
        return JVal::dbl(r.coin() ? p : -p);
      }
      return JVal::dbl((double)(int64_t)r.below(1000) / 8.0);
    }
    case 5: {
      std::string s(r.below(5) == 0 ? r.range(30, 70) : r.range(0, 8), 'a');
      for (auto& c : s) c = (char)r.range(0x20, 0x7e);
      return JVal::str(s);
    }
    case 6: {
      JVal a = JVal::arr();
      size_t n = r.below(4);
      for (size_t i = 0; i < n; i++) a.a.push_back(small_value(r, depth + 1));
      return a;
    }
    default: {
      JVal o = JVal::obj();
      size_t n = r.below(4);
      for (size_t i = 0; i < n; i++) o.o.emplace_back("m" + std::to_string(i) + (r.below(4) == 0 ? std::string(35, 'k') : ""), small_value(r, depth + 1));
      return o;
    }
  }
}

// a pool with a small chunk size (for pooling allocators; nothing for allocators that free): histories on it cross chunk
// boundaries all the time, so growth in place meets the end of a chunk and older chunks keep unused tails
template <class A>
struct SmallPool {
  static A* make(size_t) { return nullptr; }
};
template <class B, class P>
struct SmallPool<MemoryPoolAllocator<B, P>> {
  static MemoryPoolAllocator<B, P>* make(size_t chunk) { return chunk ? new MemoryPoolAllocator<B, P>(chunk) : nullptr; }
};

template <class Doc>
struct Hist {
  using NodeT = typename Doc::NodeType;
  using Alloc = typename Doc::Allocator;
  std::unique_ptr<Alloc> small_pool;  // declared before doc: outlives it
  Doc doc;
  JVal model;
  vf::Rng& r;
  bool dup_mode;   // duplicate keys allowed, no lookup maps ever
  static uint64_t& key_serial_ref() { static uint64_t k = 0; return k; }  // shared by main and side documents: keys stay distinct across Swap
  std::string trace;  // operation log for witnesses
  const char* cfg;

  Hist(vf::Rng& rng, bool dup, const char* c, size_t small_chunk = 0, Alloc* external = nullptr)
      : small_pool(external ? nullptr : SmallPool<Alloc>::make(small_chunk)), doc(external ? external : small_pool.get()), r(rng), dup_mode(dup), cfg(c) {}
  Alloc& A() { return doc.GetAllocator(); }

  void log(const std::string& s) {
    if (trace.size() < 30000) trace += s + "; ";
    vf::witness(trace.size() > 32000 ? trace.substr(trace.size() - 32000) : trace);
    vf::note(s.substr(0, 200).c_str());
  }

  std::string fresh_key(const JVal& obj) {
    if (dup_mode && !obj.o.empty() && r.below(4) == 0) return obj.o[r.below(obj.o.size())].first;
    std::string k = "fk" + std::to_string(key_serial_ref()++);
    if (r.below(6) == 0) {  // long keys: vector compare paths; half of them with arbitrary (also >= 0x80) bytes
      size_t n = r.range(28, 70);
      if (r.coin()) k += std::string(n, 'x');
      else for (size_t i = 0; i < n; i++) k += (char)r.range(1, 255);
    } else if (r.below(12) == 0) {
      k = std::string(r.range(30, 40), (char)r.range(0x7e, 0x81)) + k;  // shared long prefix around the sign boundary, distinct tail
    } else if (r.below(10) == 0) {
      // family of keys longer than 64 bytes with different lengths that share their first 32..40 bytes and differ both in
      // a middle 32-byte block and in the tail ("dotted metric names")
      std::string mid(r.range(20, 60), 'm');
      for (auto& c : mid) c = (char)('a' + r.below(3));
      k = "service.component.subcomponent.metric." + mid + "." + k + std::string(r.below(20), 'z');
    }
    if (r.below(10) == 0) k = std::string(1, (char)r.range(0x21, 0x7e)) + k;
    if (r.below(12) == 0) {
      // family of equal-length keys (49..200 bytes) that differ only in a short window in the middle (offset 16..L-17):
      // compare loops that cover the head and the tail but skip a block in between take them for equal
      if (!mid_len) { mid_len = r.range(49, 200); mid_pos = r.range(16, mid_len - 17 - 8); }
      k = std::string(mid_len, 'w');
      char b[16];
      snprintf(b, sizeof b, "%08llu", (unsigned long long)(key_serial_ref()++ % 100000000ULL));
      memcpy(&k[mid_pos], b, 8);
    }
    if (once_present.size() < 64) once_present.push_back(k); else once_present[r.below(64)] = k;
    return k;
  }
  // keys handed out earlier in this history: wherever they are no longer members (RemoveMember, EraseMember, Clear,
  // overwritten containers) a lookup has to miss them, whatever a lookup map remembers
  std::vector<std::string> once_present;
  size_t mid_len = 0, mid_pos = 0;

  NodeT make_node(const JVal& v) {
    NodeT n;
    build(n, v);
    return n;
  }
  void build(NodeT& n, const JVal& v) {
    switch (v.k) {
      case JVal::Str:
        if (r.below(3) == 0) {
          const std::string& st = keep(v.s);
          n.SetString(st.data(), v.s.size());
        } else {
          n.SetString(v.s.data(), v.s.size(), A());
        }
        break;
      case JVal::Arr:
        n.SetArray();
        for (auto& e : v.a) n.PushBack(make_node(e), A());
        break;
      case JVal::Obj:
        n.SetObject();
        for (auto& m : v.o) {
          bool copy = r.below(3) != 0;
          const std::string& ks = copy ? m.first : keep(m.first);
          n.AddMember(StringView(ks.data(), m.first.size()), make_node(m.second), A(), copy);
        }
        break;
      default: su::build_node(n, v, A()); break;
    }
  }

  // ---- verification after every step
  bool verify(const char* after) {
    c_ops.add();
    vf::eval();
    if (vf::args().verbose) {
      size_t cut = trace.rfind("; ", trace.size() > 2 ? trace.size() - 3 : 0);
      fprintf(stderr, "STEP %s | %s\n", trace.substr(cut == std::string::npos ? 0 : cut + 2).c_str(), doc.Dump().c_str());
    }
    JVal got;
    std::string why;
    if (!su::read_node(static_cast<const NodeT&>(doc), got, why)) {
      vf::violation(std::string("accessor-inconsistent-after:") + after, std::string(cfg) + ": " + why + " trace: " + tail());
      return false;
    }
    if (!jm::equal(got, model)) {
      vf::violation(std::string("model-mismatch-after:") + after, std::string(cfg) + ": first difference (library vs model) " + jm::first_diff(got, model) + " trace: " + tail());
      return false;
    }
    if (r.below(4) == 0) {
      std::string dump = doc.Dump();
      jm::RefResult rr = jm::ref_parse(dump);
      if (!rr.ok || !jm::equal(rr.v, model)) {
        vf::violation(std::string("dump-mismatch-after:") + after, std::string(cfg) + ": Dump()=" + vf::printable(dump, 200) + " model=" + jm::describe(model, 200) + " trace: " + tail());
        return false;
      }
    }
    lookups(after);
    return true;
  }
  std::string tail() const { return trace.size() > 900 ? "..." + trace.substr(trace.size() - 900) : trace; }

  void lookups(const char* after) {
    IdxPath p = random_path(model, r, JVal::Obj);
    JVal* m = model_at(model, p);
    if (m->k != JVal::Obj) return;
    NodeT* n = node_at<NodeT>(doc, p);
    const NodeT* cn = n;
    for (int t = 0; t < 3; t++) {
      c_lookup.add();
      std::string key = (!m->o.empty() && t < 2) ? m->o[r.below(m->o.size())].first
                        : (!once_present.empty() && r.coin()) ? once_present[r.below(once_present.size())] : "absent" + std::to_string(r.below(100));
      long want = -1;
      for (size_t i = 0; i < m->o.size(); i++)
        if (m->o[i].first == key) { want = (long)i; break; }
      // query key in its own exact-size buffer
      std::unique_ptr<char[]> q(new char[key.size() ? key.size() : 1]);
      memcpy(q.get(), key.data(), key.size());
      auto it1 = cn->FindMember(StringView(q.get(), key.size()));
      auto it2 = cn->FindMember(q.get(), key.size());
      long g1 = it1 == cn->MemberEnd() ? -1 : (long)(it1 - cn->MemberBegin());
      long g2 = it2 == cn->MemberEnd() ? -1 : (long)(it2 - cn->MemberBegin());
      bool has = cn->HasMember(StringView(q.get(), key.size()));
      std::string ctx = std::string(cfg) + ": object " + path_desc(p) + " key " + vf::printable(key, 40) + " after " + after + " trace: " + tail();
      if (g1 != want) vf::violation("lookup:FindMember(view)", ctx + " got " + std::to_string(g1) + " want " + std::to_string(want));
      if (g2 != want) vf::violation("lookup:FindMember(ptr,len)", ctx + " got " + std::to_string(g2) + " want " + std::to_string(want));
      if (has != (want >= 0)) vf::violation("lookup:HasMember", ctx);
      const NodeT& v = (*cn)[StringView(q.get(), key.size())];
      if (want >= 0) {
        if (&v != &((cn->MemberBegin() + want)->value)) vf::violation("lookup:operator[]", ctx + " returned another member's value");
      } else if (!v.IsNull()) {
        vf::violation("lookup:operator[]-missing-not-null", ctx);
      }
    }
    // AtPointer along a random existing path, and one broken path
    IdxPath tp = random_path(model, r);
    JsonPointer jp;
    {
      JVal* mm = &model;
      for (size_t i : tp) {
        if (mm->k == JVal::Arr) {
          jp.push_back(JsonPointerNode((int)i));
          mm = &mm->a[i];
        } else {
          // with duplicate keys the pointer resolves to the first member of that name
          jp.push_back(JsonPointerNode(mm->o[i].first));
          size_t first = 0;
          while (mm->o[first].first != mm->o[i].first) first++;
          mm = &mm->o[first].second;
          if (first != i) break;  // redirected to an earlier duplicate: the rest of tp indexes another subtree
        }
      }
      c_atptr.add();
      const NodeT* got = static_cast<const NodeT&>(doc).AtPointer(jp);
      // compare by value (the first-duplicate rule may select another member than tp did)
      JVal gv;
      std::string why;
      if (!got || !su::read_node(*got, gv, why) || !jm::equal(gv, *mm))
        vf::violation("lookup:AtPointer", std::string(cfg) + ": path " + path_desc(tp) + " after " + after + " trace: " + tail());
      jp.push_back(r.coin() ? JsonPointerNode(std::string("no-such")) : JsonPointerNode(1 << 20));
      if (static_cast<const NodeT&>(doc).AtPointer(jp) != nullptr && !(mm->k == JVal::Arr && mm->a.size() > (1u << 20)))
        vf::violation("lookup:AtPointer-nonexistent", std::string(cfg) + ": broken path resolved, trace: " + tail());
    }
  }

  // ---- one random operation; returns its name
  std::string step(Hist* side) {
    unsigned op = (unsigned)r.below(26);
    switch (op) {
      case 0: {  // set scalar
        IdxPath p = random_path(model, r);
        JVal v = small_value(r, 3);
        if (v.k == JVal::Arr || v.k == JVal::Obj) v = JVal::null();
        log("Set(" + path_desc(p) + ")=" + jm::describe(v, 60));
        NodeT* n = node_at<NodeT>(doc, p);
        switch (v.k) {
          case JVal::Null: n->SetNull(); break;
          case JVal::True: n->SetBool(true); break;
          case JVal::False: n->SetBool(false); break;
          case JVal::Uint: n->SetUint64(v.u); break;
          case JVal::Int: n->SetInt64((int64_t)v.u); break;
          case JVal::Dbl: n->SetDouble(v.as_double()); break;
          default: build(*n, v); break;
        }
        *model_at(model, p) = v;
        return "Set-scalar";
      }
      case 1: {  // SetArray / SetObject
        IdxPath p = random_path(model, r);
        bool arr = r.coin();
        log(std::string(arr ? "SetArray(" : "SetObject(") + path_desc(p) + ")");
        NodeT* n = node_at<NodeT>(doc, p);
        if (arr) n->SetArray(); else n->SetObject();
        *model_at(model, p) = arr ? JVal::arr() : JVal::obj();
        return arr ? "SetArray" : "SetObject";
      }
      case 2:
      case 3:
      case 4: {  // AddMember
        IdxPath p = random_path(model, r, JVal::Obj);
        JVal* m = model_at(model, p);
        if (m->k != JVal::Obj) return "";
        std::string key = fresh_key(*m);
        JVal v = small_value(r, 1);
        bool copy = r.below(3) != 0;
        NodeT* n = node_at<NodeT>(doc, p);
        if (n->Capacity() == 0) c_grow0.add();
        log("AddMember(" + path_desc(p) + "," + vf::printable(key, 20) + (copy ? ",copy" : ",nocopy") + ")=" + jm::describe(v, 60));
        NodeT val = make_node(v);
        const std::string& ks = copy ? key : keep(key);
        auto it = n->AddMember(StringView(ks.data(), key.size()), std::move(val), A(), copy);
        if ((size_t)(it - n->MemberBegin()) != m->o.size()) vf::violation("AddMember-return", std::string(cfg) + ": returned iterator is not the new last member");
        m->o.emplace_back(key, v);
        return "AddMember";
      }
      case 5:
      case 6: {  // RemoveMember
        IdxPath p = random_path(model, r, JVal::Obj);
        JVal* m = model_at(model, p);
        if (m->k != JVal::Obj) return "";
        NodeT* n = node_at<NodeT>(doc, p);
        std::string key;
        bool tail_pick = false;
        if (!m->o.empty() && r.below(5)) {
          size_t i = r.below(3) == 0 ? m->o.size() - 1 : r.below(m->o.size());
          tail_pick = i == m->o.size() - 1;
          key = m->o[i].first;
        } else key = "absent";
        log("RemoveMember(" + path_desc(p) + "," + vf::printable(key, 20) + ")");
        bool had_map = maps.count(path_desc(p)) > 0;
        bool got = n->RemoveMember(StringView(key.data(), key.size()));
        long idx = -1;
        for (size_t i = 0; i < m->o.size(); i++)
          if (m->o[i].first == key) { idx = (long)i; break; }
        if (got != (idx >= 0)) vf::violation("RemoveMember-return", std::string(cfg) + ": returned " + std::to_string(got) + " trace: " + tail());
        if (idx >= 0) {
          if (had_map) { c_remove_with_map.add(); if (tail_pick) c_remove_tail_with_map.add(); }
          if ((size_t)idx != m->o.size() - 1) m->o[idx] = std::move(m->o.back());
          m->o.pop_back();
          invalidate_maps_below(p);
        }
        return "RemoveMember";
      }
      case 7: {  // EraseMember(range)
        IdxPath p = random_path(model, r, JVal::Obj);
        JVal* m = model_at(model, p);
        if (m->k != JVal::Obj) return "";
        NodeT* n = node_at<NodeT>(doc, p);
        size_t sz = m->o.size();
        size_t a = r.below(sz + 1), b = a + r.below(sz - a + 1);
        if (r.below(5) == 0) { a = 0; b = sz; }
        if (a == b || (a == 0 && b == sz)) c_erase_full.add();
        log("EraseMember(" + path_desc(p) + "," + std::to_string(a) + "," + std::to_string(b) + ")");
        auto it = n->EraseMember(n->MemberBegin() + a, n->MemberBegin() + b);
        m->o.erase(m->o.begin() + a, m->o.begin() + b);
        size_t ret = it - n->MemberBegin();
        if (ret != a && !(m->o.empty() && it == n->MemberEnd())) vf::violation("EraseMember-return", std::string(cfg) + ": returned position " + std::to_string(ret) + " expected " + std::to_string(a));
        maps.erase(path_desc(p));  // EraseMember destroys the map
        invalidate_maps_below(p);
        return "EraseMember";
      }
      case 8: {  // MemberReserve / Reserve
        IdxPath p = random_path(model, r, r.coin() ? JVal::Obj : JVal::Arr);
        JVal* m = model_at(model, p);
        NodeT* n = node_at<NodeT>(doc, p);
        size_t want = r.below(40);
        size_t sz = m->k == JVal::Obj ? m->o.size() : m->a.size();
        if (m->k == JVal::Obj) {
          log("MemberReserve(" + path_desc(p) + "," + std::to_string(want) + ")");
          if (want < sz) c_reserve_below.add();
          if (n->Capacity() == 0) c_grow0.add();
          n->MemberReserve(want, A());
        } else if (m->k == JVal::Arr) {
          log("Reserve(" + path_desc(p) + "," + std::to_string(want) + ")");
          if (want < sz) c_reserve_below.add();
          if (n->Capacity() == 0) c_grow0.add();
          n->Reserve(want, A());
        } else return "";
        if (n->Capacity() < want || n->Capacity() < sz) vf::violation("Reserve-capacity", std::string(cfg) + ": Capacity " + std::to_string(n->Capacity()) + " after reserve " + std::to_string(want));
        return "Reserve";
      }
      case 9:
      case 10:
      case 11: {  // PushBack
        IdxPath p = random_path(model, r, JVal::Arr);
        JVal* m = model_at(model, p);
        if (m->k != JVal::Arr) return "";
        NodeT* n = node_at<NodeT>(doc, p);
        JVal v = small_value(r, 1);
        if (n->Capacity() == 0) c_grow0.add();
        log("PushBack(" + path_desc(p) + ")=" + jm::describe(v, 60));
        n->PushBack(make_node(v), A());
        m->a.push_back(v);
        return "PushBack";
      }
      case 12: {  // PopBack
        IdxPath p = random_path(model, r, JVal::Arr);
        JVal* m = model_at(model, p);
        if (m->k != JVal::Arr || m->a.empty()) return "";
        log("PopBack(" + path_desc(p) + ")");
        node_at<NodeT>(doc, p)->PopBack();
        m->a.pop_back();
        return "PopBack";
      }
      case 13: {  // Erase(range) / Erase(pos)
        IdxPath p = random_path(model, r, JVal::Arr);
        JVal* m = model_at(model, p);
        if (m->k != JVal::Arr) return "";
        NodeT* n = node_at<NodeT>(doc, p);
        size_t sz = m->a.size();
        size_t a = r.below(sz + 1), b = a + r.below(sz - a + 1);
        if (r.below(5) == 0) { a = 0; b = sz; }
        if (a == b || (a == 0 && b == sz)) c_erase_full.add();
        if (sz == 0 && n->Capacity() == 0) {
          // Begin() of a never-allocated array is null: Erase(0,0) on it is pointer arithmetic on null; skip
          return "";
        }
        log("Erase(" + path_desc(p) + "," + std::to_string(a) + "," + std::to_string(b) + ")");
        if (b == a + 1 && r.coin()) n->Erase(n->Begin() + a); else if (r.coin()) n->Erase(a, b); else n->Erase(n->Begin() + a, n->Begin() + b);
        m->a.erase(m->a.begin() + a, m->a.begin() + b);
        return "Erase";
      }
      case 14: {  // Clear, then often reuse
        IdxPath p = random_path(model, r, r.coin() ? JVal::Obj : JVal::Arr);
        JVal* m = model_at(model, p);
        if (m->k != JVal::Arr && m->k != JVal::Obj) return "";
        log("Clear(" + path_desc(p) + ")");
        NodeT* n = node_at<NodeT>(doc, p);
        std::vector<std::string> old_keys;
        for (auto& om : m->o) old_keys.push_back(om.first);
        n->Clear();
        m->a.clear();
        m->o.clear();
        for (auto& ok : old_keys)
          if (n->HasMember(StringView(ok.data(), ok.size())) || n->FindMember(StringView(ok.data(), ok.size())) != n->MemberEnd() || !static_cast<const NodeT&>(*n)[StringView(ok.data(), ok.size())].IsNull())
            vf::violation("lookup:member-found-after-Clear", std::string(cfg) + ": key " + vf::printable(ok, 40) + " trace: " + tail());
        maps.erase(path_desc(p));
        invalidate_maps_below(p);
        if (r.coin()) {
          c_clear_reuse.add();
          JVal v = small_value(r, 2);
          if (m->k == JVal::Arr) { n->PushBack(make_node(v), A()); m->a.push_back(v); }
          else { std::string k = fresh_key(*m); n->AddMember(StringView(k.data(), k.size()), make_node(v), A()); m->o.emplace_back(k, v); }
          log("reuse-after-Clear");
        }
        return "Clear";
      }
      case 15: {  // element assignment from a fresh node
        IdxPath p = random_path(model, r);
        JVal v = small_value(r, 1);
        log("Assign(" + path_desc(p) + ")=" + jm::describe(v, 60));
        *node_at<NodeT>(doc, p) = make_node(v);
        *model_at(model, p) = v;
        maps.erase(path_desc(p));
        invalidate_maps_below(p);
        return "assign";
      }
      case 16: {  // move-assign from a sub-node of the target
        IdxPath p = random_path(model, r);
        JVal* m = model_at(model, p);
        IdxPath sub = p;
        const JVal* cur = m;
        while ((cur->k == JVal::Arr && !cur->a.empty()) || (cur->k == JVal::Obj && !cur->o.empty())) {
          size_t n = cur->k == JVal::Arr ? cur->a.size() : cur->o.size();
          size_t i = r.below(n);
          sub.push_back(i);
          cur = cur->k == JVal::Arr ? &cur->a[i] : &cur->o[i].second;
          if (r.coin()) break;
        }
        if (sub.size() == p.size()) return "";
        c_move_sub.add();
        log("MoveAssign(" + path_desc(p) + " <- own subnode " + path_desc(sub) + ")");
        NodeT* dst = node_at<NodeT>(doc, p);
        NodeT* src = node_at<NodeT>(doc, sub);
        *dst = std::move(*src);
        JVal tmp = *cur;
        *m = tmp;
        maps.erase(path_desc(p));
        invalidate_maps_below(p);
        return "move-assign-from-subnode";
      }
      case 17: {  // Swap two nodes (disjoint, or a node with its own sub-node in C12)
        IdxPath a = random_path(model, r), b = random_path(model, r);
        if (a == b) return "";
        bool nested = is_prefix(a, b) || is_prefix(b, a);
        if (nested) {
          if (g_prop != "C12" || Alloc::kNeedFree) return "";  // raw swap with a descendant orphans the old container by design
          if (is_prefix(b, a)) std::swap(a, b);                                    // a is the ancestor
          c_swap_sub.add();
          log("Swap(" + path_desc(a) + " <-> own subnode " + path_desc(b) + ")");
          NodeT* na = node_at<NodeT>(doc, a);
          NodeT* nb = node_at<NodeT>(doc, b);
          JVal sub = *model_at(model, b);
          na->Swap(*nb);
          *model_at(model, a) = sub;
          maps.erase(path_desc(a));
          invalidate_maps_below(a);
          return "Swap-with-subnode";
        }
        log("Swap(" + path_desc(a) + " <-> " + path_desc(b) + ")");
        node_at<NodeT>(doc, a)->Swap(*node_at<NodeT>(doc, b));
        std::swap(*model_at(model, a), *model_at(model, b));
        swap_map_marks(a, b);
        return "Swap";
      }
      case 18: {  // CopyFrom: from a disjoint node of this document or from the side document
        IdxPath dst = random_path(model, r);
        bool copy_str = r.coin();
        if (side && r.coin()) {
          IdxPath sp = random_path(side->model, r);
          log("CopyFrom(" + path_desc(dst) + " <- side " + path_desc(sp) + (copy_str ? ",copyString" : "") + ")");
          c_copyfrom.add();
          node_at<NodeT>(doc, dst)->CopyFrom(*node_at<NodeT>(side->doc, sp), A(), copy_str);
          *model_at(model, dst) = *model_at(side->model, sp);
        } else {
          IdxPath src = random_path(model, r);
          if (is_prefix(dst, src) || is_prefix(src, dst)) return "";
          log("CopyFrom(" + path_desc(dst) + " <- " + path_desc(src) + (copy_str ? ",copyString" : "") + ")");
          c_copyfrom.add();
          node_at<NodeT>(doc, dst)->CopyFrom(*node_at<NodeT>(doc, src), A(), copy_str);
          JVal tmp = *model_at(model, src);
          *model_at(model, dst) = tmp;
        }
        maps.erase(path_desc(dst));
        invalidate_maps_below(dst);
        return "CopyFrom";
      }
      case 19:
      case 20: {  // CreateMap
        if (dup_mode) return "";
        IdxPath p = random_path(model, r, JVal::Obj);
        JVal* m = model_at(model, p);
        if (m->k != JVal::Obj) return "";
        log("CreateMap(" + path_desc(p) + ")");
        c_map_create.add();
        NodeT* n = node_at<NodeT>(doc, p);
        if (n->Capacity() == 0) c_grow0.add();
        n->CreateMap(A());
        maps.insert(path_desc(p));
        return "CreateMap";
      }
      case 21: {  // DestroyMap
        IdxPath p = random_path(model, r, JVal::Obj);
        JVal* m = model_at(model, p);
        if (m->k != JVal::Obj) return "";
        log("DestroyMap(" + path_desc(p) + ")");
        c_map_destroy.add();
        node_at<NodeT>(doc, p)->DestroyMap();
        maps.erase(path_desc(p));
        return "DestroyMap";
      }
      case 22: {  // move-assign from a disjoint node (source becomes null)
        IdxPath a = random_path(model, r), b = random_path(model, r);
        if (is_prefix(a, b) || is_prefix(b, a)) return "";
        log("MoveAssign(" + path_desc(a) + " <- " + path_desc(b) + ")");
        *node_at<NodeT>(doc, a) = std::move(*node_at<NodeT>(doc, b));
        JVal tmp = *model_at(model, b);
        *model_at(model, a) = tmp;
        *model_at(model, b) = JVal::null();
        maps.erase(path_desc(a));
        maps.erase(path_desc(b));
        invalidate_maps_below(a);
        invalidate_maps_below(b);
        return "move-assign";
      }
      case 23: {  // arguments that alias the container they go into: PushBack / AddMember of one of its own children (moved)
        IdxPath p = random_path(model, r, r.coin() ? JVal::Arr : JVal::Obj);
        JVal* m = model_at(model, p);
        NodeT* n = node_at<NodeT>(doc, p);
        if (m->k == JVal::Arr && !m->a.empty()) {
          size_t i = r.below(m->a.size());
          c_alias.add();
          log("PushBack(" + path_desc(p) + ", move(own element " + std::to_string(i) + "))");
          n->PushBack(std::move((*n)[i]), A());
          JVal v = m->a[i];
          m->a[i] = JVal::null();
          m->a.push_back(v);
          invalidate_maps_below(p);
          return "PushBack(own element)";
        }
        if (m->k == JVal::Obj && !m->o.empty()) {
          size_t i = r.below(m->o.size());
          std::string k = fresh_key(*m);
          c_alias.add();
          log("AddMember(" + path_desc(p) + ", fresh key, move(value of own member " + std::to_string(i) + "))");
          n->AddMember(StringView(k.data(), k.size()), std::move((n->MemberBegin() + i)->value), A());
          JVal v = m->o[i].second;
          m->o[i].second = JVal::null();
          m->o.emplace_back(k, v);
          invalidate_maps_below(p);
          return "AddMember(own value)";
        }
        return "";
      }
      case 24: {  // SetString from the node's own bytes (view of itself, prefix, suffix)
        IdxPath p = random_path(model, r);
        JVal* m = model_at(model, p);
        if (m->k != JVal::Str) return "";
        NodeT* n = node_at<NodeT>(doc, p);
        StringView sv = n->GetStringView();
        size_t from = sv.size() ? r.below(sv.size() + 1) : 0, len = sv.size() - from;
        if (r.coin()) { from = 0; len = sv.size(); }
        c_alias.add();
        log("SetString(" + path_desc(p) + ", own bytes [" + std::to_string(from) + ",+" + std::to_string(len) + "), alloc)");
        n->SetString(sv.data() + from, len, A());
        m->s = m->s.substr(from, len);
        return "SetString(own bytes)";
      }
      default: {  // SetString variants on an existing node
        IdxPath p = random_path(model, r);
        JVal v = JVal::str(std::string(r.range(0, 50), (char)r.range(0x21, 0x7e)));
        log("SetString(" + path_desc(p) + ")");
        build(*node_at<NodeT>(doc, p), v);
        *model_at(model, p) = v;
        maps.erase(path_desc(p));
        invalidate_maps_below(p);
        return "SetString";
      }
    }
  }
  // bookkeeping of which objects currently carry a lookup map (only used for reach counters)
  std::set<std::string> maps;
  void invalidate_maps_below(const IdxPath& p) {
    std::string pre = path_desc(p) + "/";
    for (auto it = maps.begin(); it != maps.end();)
      if (it->compare(0, pre.size(), pre) == 0) it = maps.erase(it); else ++it;
  }
  void swap_map_marks(const IdxPath& a, const IdxPath& b) {
    // conservative: forget marks under both (counters only)
    maps.erase(path_desc(a));
    maps.erase(path_desc(b));
    invalidate_maps_below(a);
    invalidate_maps_below(b);
  }
};

template <class Doc>
static void c12_history(vf::Rng& r, const char* cfg) {
  c_hist.add();
  Hist<Doc>::key_serial_ref() = 0;
  bool dup = r.below(4) == 0;
  if (dup) c_dupkeys.add();
  size_t small_chunk = r.below(3) == 0 ? (size_t)64 << r.below(5) : 0;  // 64..1024-byte chunks for a third of the pool histories
  Hist<Doc> h(r, dup, cfg, small_chunk);
  if (h.small_pool) c_small_chunk.add();
  // the side document has its own allocator (nodes are deep-copied across) or, for half of the small-chunk pool
  // histories, lives on the SAME pool as the main document (nodes may then also be moved across)
  bool shared_pool = h.small_pool && r.coin();
  if (shared_pool) c_shared_pool.add();
  Hist<Doc> side(r, false, cfg, 0, shared_pool ? h.small_pool.get() : nullptr);
  {
    JVal sv = small_value(r, 0);
    side.build(side.doc, sv);
    side.model = sv;
  }
  JVal init = r.coin() ? JVal::obj() : JVal::arr();
  if (r.below(3) == 0) init = small_value(r, 0);
  if (r.below(3) == 0) {
    // start from a parsed document: strings borrowed from the document's text buffer, containers allocated with
    // capacity == size (growth from an exactly full container, capacity 1 for one-element arrays)
    jm::GenOpts go;
    go.max_depth = 3;
    go.dup_keys = dup;
    JVal v = jm::gen_document(r, go);
    jm::RenderOpts ro;
    std::string text = jm::render(v, r, ro);
    jm::RefResult ref = jm::ref_parse(text);
    if (ref.ok && (dup || !jm::has_dup_keys(ref.v))) {
      h.doc.Parse(text.data(), text.size());
      if (!h.doc.HasParseError()) {
        c_parsed_init.add();
        h.log("init=Parse(" + std::to_string(text.size()) + " bytes)");
        h.model = ref.v;
        init.k = JVal::Null;
        init.s = "parsed";
      }
    }
  }
  if (init.s != "parsed") {
    h.build(h.doc, init);
    h.model = init;
  }
  size_t steps = r.range(20, vf::args().thorough ? 400 : 120);
  for (size_t s = 0; s < steps; s++) {
    std::string name;
    unsigned ev = (unsigned)r.below(16);
    if (ev == 0) {
      // the side document is parsed again: whatever the main document copied (CopyFrom with or without copyString) or
      // moved out of it earlier must be unaffected
      jm::GenOpts go;
      go.max_depth = 3;
      JVal v = jm::gen_document(r, go);
      jm::RenderOpts ro;
      std::string text = jm::render(v, r, ro);
      jm::RefResult ref = jm::ref_parse(text);
      if (!ref.ok || jm::has_dup_keys(ref.v)) continue;
      side.doc.Parse(text.data(), text.size());
      if (side.doc.HasParseError()) continue;
      side.model = ref.v;
      side.maps.clear();
      c_side_reparse.add();
      h.log("side.Parse(" + std::to_string(text.size()) + " bytes)");
      name = "side-reparse";
    } else if (ev == 1 && shared_pool) {
      // a node moved from the side document into the main one (same pool)
      IdxPath sp = random_path(side.model, r), dst = random_path(h.model, r);
      if (sp.empty()) continue;
      h.log("MoveAcross(" + path_desc(dst) + " <- side " + path_desc(sp) + ")");
      *node_at<typename Doc::NodeType>(h.doc, dst) = std::move(*node_at<typename Doc::NodeType>(side.doc, sp));
      *model_at(h.model, dst) = *model_at(side.model, sp);
      *model_at(side.model, sp) = JVal::null();
      h.maps.erase(path_desc(dst));
      h.invalidate_maps_below(dst);
      side.maps.clear();
      c_move_across.add();
      name = "move-across-documents";
    } else {
      name = h.step(&side);
    }
    if (name.empty()) continue;
    if (!h.verify(name.c_str())) return;  // after a divergence the model is no longer in lock step
  }
  vf::distinct(vf::hash_str(h.trace));
  // independence (C13 clause, cheap to check here too): deep copy then mutate the original
  JVal snapshot = h.model;
  typename Doc::NodeType copy(h.doc, h.A(), true);
  h.step(&side);
  h.step(&side);
  JVal cv;
  std::string why;
  if (!su::read_node(copy, cv, why) || !jm::equal(cv, snapshot))
    vf::violation("deep-copy-changed-with-original", std::string(cfg) + ": " + jm::first_diff(cv, snapshot));
}

// ------------------------------------------------------------------ C13
static vf::Counter c13_doc_move("op:document-move"), c13_doc_swap("op:document-swap"), c13_parse_ok("op:Parse(valid)"), c13_parse_bad("op:Parse(invalid)"),
    c13_pod("op:ParseOnDemand"), c13_copy_indep("copy-independence-checks"), c13_ledger("ledger-quiescent-checks"), c13_early("destruction-at-random-step");

static std::string c13_text(vf::Rng& r, bool valid) {
  jm::GenOpts go;
  go.max_depth = 3;
  JVal v = jm::gen_document(r, go);
  jm::RenderOpts ro;
  std::string t = jm::render(v, r, ro);
  if (!valid) {
    if (r.coin()) t.resize(r.below(t.size() + 1));
    else t = jm::mutate(jm::mutate(t, r), r);
  }
  return t;
}

static void c13_history(vf::Rng& r) {
  c_hist.add();
  Hist<su::TrackDoc>::key_serial_ref() = 0;
  su::ledger_reset();
  std::string trace;
  {
    using Doc = su::TrackDoc;
    Hist<Doc> h(r, false, "track");
    Hist<Doc> side(r, false, "track");
    JVal sv = small_value(r, 0);
    side.build(side.doc, sv);
    side.model = sv;
    JVal init = small_value(r, 0);
    h.build(h.doc, init);
    h.model = init;
    std::vector<std::unique_ptr<su::TrackNode>> copies;  // deep copies kept alive across later events
    std::vector<JVal> copy_models;
    size_t steps = r.range(10, vf::args().thorough ? 300 : 80);
    size_t stop_at = r.below(3) == 0 ? r.below(steps) : steps;
    if (stop_at < steps) c13_early.add();
    for (size_t s = 0; s < stop_at; s++) {
      unsigned op = (unsigned)r.below(30);
      std::string name;
      if (op < 20) {
        name = h.step(&side);
      } else if (op == 20 || op == 21) {  // reparse (valid / invalid): the model follows the reference parser
        bool valid = op == 20;
        std::string t = c13_text(r, valid);
        jm::RefResult ref = jm::ref_parse(t);
        if (ref.f.cls == jm::Fault::String && ref.f.surrogate_only) continue;
        if (ref.ok && jm::has_dup_keys(ref.v)) continue;  // lookup maps on objects with duplicate keys are outside the statements
        h.log(std::string("Parse(") + (ref.ok ? "valid" : "invalid") + "," + std::to_string(t.size()) + " bytes)");
        if (ref.ok) c13_parse_ok.add(); else c13_parse_bad.add();
        h.doc.Parse(t.data(), t.size());
        if (h.doc.HasParseError() != !ref.ok) continue;  // C01's subject; model cannot follow
        h.model = ref.ok ? ref.v : JVal::null();
        h.maps.clear();
        name = "Parse";
      } else if (op == 22) {  // ParseOnDemand
        std::string t = "{\"a\":" + c13_text(r, true) + ",\"b\":[1,2,{\"c\":\"x\"}]}";
        JsonPointer jp;
        jp.push_back(JsonPointerNode(std::string(r.coin() ? "a" : "b")));
        jm::RefResult ref = jm::ref_parse(t);
        if (!ref.ok || jm::has_dup_keys(ref.v)) continue;
        h.log("ParseOnDemand");
        c13_pod.add();
        h.doc.ParseOnDemand(t.data(), t.size(), jp);
        if (h.doc.HasParseError()) continue;
        h.model = jp[0].GetStr() == "a" ? ref.v.o[0].second : ref.v.o[1].second;
        h.maps.clear();
        name = "ParseOnDemand";
      } else if (op == 23) {  // document move construction + move assignment
        h.log("doc-move");
        c13_doc_move.add();
        Doc tmp(std::move(h.doc));
        h.doc = std::move(tmp);
        name = "doc-move";
      } else if (op == 24) {  // swap with the side document
        h.log("doc-swap-with-side");
        c13_doc_swap.add();
        h.doc.Swap(side.doc);
        std::swap(h.model, side.model);
        h.maps.clear();
        side.maps.clear();
        name = "doc-swap";
      } else if (op == 25 || op == 26) {  // deep copy kept alive (independence)
        IdxPath p = random_path(h.model, r);
        h.log("deep-copy-of(" + path_desc(p) + ")");
        copies.emplace_back(new su::TrackNode(*node_at<su::TrackNode>(h.doc, p), h.A(), true));
        copy_models.push_back(*model_at(h.model, p));
        name = "deep-copy";
      } else if (op == 28) {
        // a parsed string leaves the side document, is re-homed with SetString(own view, alloc), is put into the main
        // document, and the side document is then parsed again (its text buffer is released)
        std::string sval(r.range(1, 60), 'p');
        for (auto& ch : sval) ch = (char)r.range('a', 'z');
        std::string text = "[\"" + sval + "\",{\"k\":\"" + sval + "2\"}]";
        side.doc.Parse(text.data(), text.size());
        if (side.doc.HasParseError()) continue;
        su::TrackNode taken(std::move(side.doc[0]));
        taken.SetString(taken.GetStringView(), h.A());
        IdxPath dst = random_path(h.model, r);
        h.log("adopt-re-homed-parsed-string(" + path_desc(dst) + ")");
        *node_at<su::TrackNode>(h.doc, dst) = std::move(taken);
        *model_at(h.model, dst) = JVal::str(sval);
        h.maps.erase(path_desc(dst));
        h.invalidate_maps_below(dst);
        std::string t2 = c13_text(r, true);
        jm::RefResult ref2 = jm::ref_parse(t2);
        if (!ref2.ok || jm::has_dup_keys(ref2.v)) { t2 = "[1,{\"z\":null}]"; ref2 = jm::ref_parse(t2); }
        side.doc.Parse(t2.data(), t2.size());
        side.model = (!side.doc.HasParseError() && ref2.ok) ? ref2.v : JVal::null();
        side.maps.clear();
        c_rehome.add();
        name = "adopt-re-homed-string";
      } else if (op == 29) {  // the side document parsed again: copies taken from it earlier must not notice
        std::string t2 = c13_text(r, true);
        jm::RefResult ref2 = jm::ref_parse(t2);
        if (!ref2.ok || jm::has_dup_keys(ref2.v)) continue;
        side.doc.Parse(t2.data(), t2.size());
        if (side.doc.HasParseError()) continue;
        side.model = ref2.v;
        side.maps.clear();
        c_side_reparse.add();
        h.log("side.Parse");
        name = "side-reparse";
      } else if (op == 27 && !copies.empty()) {  // mutate / destroy a copy: the document must not notice
        size_t i = r.below(copies.size());
        h.log("destroy-copy");
        copies.erase(copies.begin() + i);
        copy_models.erase(copy_models.begin() + i);
        name = "destroy-copy";
      } else {
        name = side.step(nullptr);  // work on the side document too
        if (!name.empty()) name = "side:" + name;
      }
      if (name.empty()) continue;
      if (!h.verify(name.c_str())) break;
      // the side document must be untouched by whatever happened to the main one (and vice versa)
      if ((s & 3) == 3 || name == "doc-swap" || name == "Parse") {
        JVal sv2;
        std::string why2;
        vf::note("read side document");
        if (!su::read_node(static_cast<const su::TrackNode&>(side.doc), sv2, why2) || !jm::equal(sv2, side.model)) {
          vf::violation("side-document-changed-after:" + name, "side document differs from its model: " + jm::first_diff(sv2, side.model) + " trace: " + h.tail());
          break;
        }
      }
      // all deep copies still hold their snapshot
      for (size_t i = 0; i < copies.size(); i++) {
        c13_copy_indep.add();
        JVal cv;
        std::string why;
        if (!su::read_node(*copies[i], cv, why) || !jm::equal(cv, copy_models[i])) {
          vf::violation("deep-copy-not-independent", "after " + name + ": copy differs from its snapshot: " + jm::first_diff(cv, copy_models[i]) + " trace: " + h.tail());
          copies.clear();
          copy_models.clear();
          break;
        }
      }
      if (su::ledger_errors()) {
        vf::violation("ledger-bad-free-after:" + name, su::ledger().last_error + " trace: " + h.tail());
        break;
      }
    }
    trace = h.trace;
    vf::distinct(vf::hash_str(trace));
    // copies outlive the documents in half of the histories
    if (r.coin()) copies.clear();
    h.log("end-of-scope");
  }
  c13_ledger.add();
  vf::witness(trace.size() > 32000 ? trace.substr(trace.size() - 32000) : trace);
  if (su::ledger_errors()) vf::violation("ledger-bad-free-at-destruction", su::ledger().last_error + " trace: ..." + trace.substr(trace.size() > 900 ? trace.size() - 900 : 0));
  size_t live = su::ledger_live();
  if (live) vf::violation("ledger-leak", std::to_string(live) + " blocks still allocated after every owner was destroyed; trace: ..." + trace.substr(trace.size() > 900 ? trace.size() - 900 : 0));
  su::ledger_reset();
}

// lazy parse / lazy merge on the ledger allocator: raw nodes, keys decoded into allocator memory, source destroyed
// before the merged target is read
static vf::Counter c13_lazy("lazy-merge-on-ledger-allocator"), c13_lazy_esc("lazy-merge:escaped-keys");
static void c13_lazy_case(vf::Rng& r) {
  su::ledger_reset();
  std::string ttext, stext, expect, got;
  {
    // small objects; keys with and without escapes, in varying order; new keys contributed by the source
    auto gen_obj = [&](const char* tag, bool src) {
      std::string t = "{";
      size_t n = r.range(0, 5);
      for (size_t i = 0; i < n; i++) {
        if (i) t += ",";
        std::string k;
        switch (r.below(4)) {
          case 0: k = "a\\n" + std::to_string(i); break;            // escaped spelling
          case 1: k = "q\\u0041" + std::to_string(i); break;
          default: k = std::string(src && r.coin() ? "new" : "k") + std::to_string(i); break;
        }
        t += "\"" + k + "\":";
        if (r.below(3) == 0) t += std::string("{\"x") + tag + "\":" + std::to_string(i) + ",\"e\\t\":[" + std::to_string(i) + "]}";
        else t += r.coin() ? std::to_string(r.below(100)) : "\"v" + std::to_string(i) + "\"";
      }
      return t + "}";
    };
    ttext = gen_obj("t", false);
    stext = gen_obj("s", true);
    if (ttext.find('\\') != std::string::npos || stext.find('\\') != std::string::npos) c13_lazy_esc.add();
    c13_lazy.add();
    vf::eval();
    std::string w = ttext + " <== " + stext;
    vf::witness(w);
    vf::distinct(vf::hash_str(w));
    expect = UpdateLazy(StringView(ttext.data(), ttext.size()), StringView(stext.data(), stext.size()));  // pool allocator reference
    su::TrackAlloc alloc;
    su::TrackNode target;
    {
      su::TrackNode source;
      vf::note("ParseLazy+UpdateNodeLazy(ledger allocator)");
      ParseResult r1 = internal::ParseLazy(target, StringView(ttext.data(), ttext.size()), alloc);
      ParseResult r2 = internal::ParseLazy(source, StringView(stext.data(), stext.size()), alloc);
      if (r1.Error() || r2.Error()) {
        vf::violation("lazy-parse-error-on-valid-text", ttext + " / " + stext);
        return;
      }
      SonicError e = internal::UpdateNodeLazy(target, source, alloc);
      if (e) {
        vf::violation("lazy-merge-error", std::to_string((int)e));
        return;
      }
    }  // source gone: the target must own everything it refers to (or refer to the caller's texts only)
    WriteBuffer wb;
    vf::note("Serialize(merged target after the source was destroyed)");
    if (target.Serialize(wb) == kErrorNone) got = std::string(wb.ToString(), wb.Size());
    if (su::ledger_errors()) vf::violation("ledger-bad-free:lazy-merge", su::ledger().last_error + " texts: " + w);
  }
  if (got != expect) vf::violation("lazy-merge-on-ledger-differs-from-pool", "ledger: " + vf::printable(got, 200) + " pool: " + vf::printable(expect, 200) + " texts: " + ttext + " <== " + stext);
  if (su::ledger_errors()) vf::violation("ledger-bad-free:lazy-merge", su::ledger().last_error);
  if (su::ledger_live()) vf::violation("ledger-leak:lazy-merge", std::to_string(su::ledger_live()) + " blocks after the lazily merged nodes were destroyed; texts: " + ttext + " <== " + stext);
  su::ledger_reset();
}

// lazy parse / lazy merge of INVALID texts on the ledger allocator: truncated anywhere, mutated, the ':' after a key
// removed, garbage inside a nested object that is only parsed during the merge.  Whatever was built before the fault
// (decoded key buffers, member blocks) has to be released exactly once.
static vf::Counter c13_lazy_bad("lazy-parse-or-merge-of-invalid-text(ledger)"), c13_lazy_bad_rej("lazy-invalid:error-reported"), c13_lazy_bad_acc("lazy-invalid:accepted");
static void c13_lazy_invalid_case(vf::Rng& r) {
  su::ledger_reset();
  std::string ttext, stext;
  {
    auto gen_obj = [&](int depth, auto&& self) -> std::string {
      std::string t = "{";
      size_t n = r.range(1, 5);
      for (size_t i = 0; i < n; i++) {
        if (i) t += ",";
        std::string k;
        switch (r.below(3)) {
          case 0: k = "a\\n" + std::to_string(i); break;
          case 1: k = "q\\u0041\\t" + std::to_string(i); break;
          default: k = "k" + std::to_string(i); break;
        }
        t += "\"" + k + "\":";
        if (depth < 2 && r.below(3) == 0) t += self(depth + 1, self);
        else t += r.coin() ? std::to_string(r.below(100)) : "\"v\\n" + std::to_string(i) + "\"";
      }
      return t + "}";
    };
    auto spoil = [&](std::string t) {
      switch (r.below(5)) {
        case 0: t.resize(r.below(t.size() + 1)); break;
        case 1: t = jm::mutate(t, r); break;
        case 2: { size_t p = t.find(':', r.below(t.size())); if (p != std::string::npos) t[p] = ' '; break; }
        case 3: { size_t p = t.find('"', r.below(t.size())); if (p != std::string::npos) t.erase(p, 1); break; }
        default: { size_t p = t.rfind('}'); if (p != std::string::npos && p > 0) t.insert(r.below(p) + 1, r.coin() ? "}" : "\\"); break; }
      }
      return t;
    };
    ttext = gen_obj(0, gen_obj);
    stext = gen_obj(0, gen_obj);
    int which = (int)r.below(3);
    if (which != 1) ttext = spoil(ttext);
    if (which != 0) stext = spoil(stext);
    c13_lazy_bad.add();
    vf::eval();
    std::string w = ttext + " <== " + stext;
    vf::witness(w);
    vf::distinct(vf::hash_str(w));
    su::TrackAlloc alloc;
    su::TrackNode target;
    {
      su::TrackNode source;
      vf::note("ParseLazy(invalid text, ledger allocator)");
      ParseResult r1 = internal::ParseLazy(target, StringView(ttext.data(), ttext.size()), alloc);
      ParseResult r2 = internal::ParseLazy(source, StringView(stext.data(), stext.size()), alloc);
      bool bad = r1.Error() || r2.Error();
      if (!bad) {
        vf::note("UpdateNodeLazy(texts with faults below the top level)");
        SonicError e = internal::UpdateNodeLazy(target, source, alloc);
        bad = e != kErrorNone;
        if (!bad && r.coin()) {
          WriteBuffer wb;
          (void)target.Serialize(wb);
        }
      }
      if (bad) c13_lazy_bad_rej.add(); else c13_lazy_bad_acc.add();
    }
    if (su::ledger_errors()) vf::violation("ledger-bad-free:lazy-invalid-text", su::ledger().last_error + " texts: " + vf::printable(w, 300));
  }
  if (su::ledger_errors()) vf::violation("ledger-bad-free:lazy-invalid-text", su::ledger().last_error);
  if (su::ledger_live()) vf::violation("ledger-leak:lazy-invalid-text", std::to_string(su::ledger_live()) + " blocks after lazily parsed nodes were destroyed; texts: " + vf::printable(ttext + " <== " + stext, 300));
  su::ledger_reset();
}

// a pooling allocator on top of the ledger allocator: documents are parsed on handles of one pool while handles are
// copied, moved, copy-assigned and move-assigned (also between two handles of the same pool) and destroyed in any order.
// When the last handle is gone every chunk and the shared header must have gone back to the ledger, exactly once.
static vf::Counter c13_pool("pool-over-ledger-histories"), c13_pool_ops("pool-over-ledger:handle-operations"), c13_pool_same("pool-over-ledger:move-assign-between-handles-of-one-pool");
static void c13_pool_handles_case(vf::Rng& r) {
  using LPool = MemoryPoolAllocator<su::TrackAlloc>;
  using LDoc = GenericDocument<DNode<LPool>>;
  su::ledger_reset();
  std::string trace;
  {
    su::TrackAlloc base;
    std::vector<std::unique_ptr<LPool>> hs;
    hs.emplace_back(new LPool((size_t)256 << r.below(6), &base));
    c13_pool.add();
    vf::eval();
    size_t steps = r.range(3, 14);
    for (size_t k = 0; k < steps; k++) {
      c13_pool_ops.add();
      size_t a = r.below(hs.size()), b = r.below(hs.size());
      switch (r.below(7)) {
        case 0: trace += "copy;"; hs.emplace_back(new LPool(*hs[a])); break;
        case 1: trace += "move-construct;"; { std::unique_ptr<LPool> m(new LPool(std::move(*hs[a]))); hs[a] = std::move(m); } break;
        case 2: if (a != b) { trace += "copy-assign;"; *hs[a] = *hs[b]; } break;
        case 3: if (a != b) { trace += "move-assign(same pool);"; c13_pool_same.add(); *hs[a] = std::move(*hs[b]); hs.erase(hs.begin() + b); } break;
        case 4: if (hs.size() > 1) { trace += "destroy;"; hs.erase(hs.begin() + a); } break;
        case 5: trace += "self-assign;"; *hs[a] = *hs[a]; break;
        default: {
          trace += "parse;";
          jm::GenOpts go;
          go.max_depth = 3;
          JVal v = jm::gen_document(r, go);
          std::string text = jm::render_compact(v);
          LDoc d(hs[a].get());
          d.Parse(text.data(), text.size());
          if (!d.HasParseError() && r.coin()) (void)d.Dump();
        }
      }
      vf::witness(trace);
    }
    vf::distinct(vf::hash_str(trace) ^ r.s);
  }
  if (su::ledger_errors()) vf::violation("ledger-bad-free:pool-handles", su::ledger().last_error + " history: " + trace);
  if (su::ledger_live()) vf::violation("ledger-leak:pool-not-returned-after-last-handle", std::to_string(su::ledger_live()) + " blocks still allocated; history: " + trace);
  su::ledger_reset();
}

// ------------------------------------------------------------------ C18
static vf::Counter c18_pairs("pairs-compared"), c18_eq("pairs:model-equal"), c18_ne("pairs:model-different"), c18_tri("triples(transitivity)"), c18_perm("variant:member-permuted"),
    c18_kind("variant:number-kind-changed"), c18_cross("pairs:across-allocator-types"), c18_moved_null("history:null-from-moved-from-node"), c18_alias("history:const-strings-sharing-an-address"),
    c18_map("history:lookup-map-present"), c18_rt("deep-copy/parse-of-dump-checks");

struct BuildStyle {
  su::StrMode sm;
  bool reserve, map, overwrite, moved_nulls;
};
template <class NodeT, class Alloc>
static void styled_build(NodeT& n, const JVal& v, Alloc& a, vf::Rng& r, const BuildStyle& st) {
  if (st.overwrite && r.below(3) == 0) {  // the node held other values before
    n.SetDouble(3.25);
    n.SetString("previous", 8, a);
    if (r.coin()) { n.SetArray(); n.PushBack(NodeT((uint64_t)7), a); }
  }
  switch (v.k) {
    case JVal::Null:
      if (st.moved_nulls && r.coin()) {
        NodeT tmp;
        if (r.coin()) tmp.SetString("a string that is about to be moved away", 39, a); else tmp.SetDouble(123.5);
        NodeT sink(std::move(tmp));  // tmp is now a null node whose payload bytes are stale
        n = std::move(tmp);
        c18_moved_null.add();
      } else n.SetNull();
      break;
    case JVal::Str:
      if (st.sm == su::kStrConst || (st.sm == su::kStrMixed && r.coin())) {
        const std::string& s = keep(v.s);
        if (s.size() > v.s.size() + 28) c18_alias.add();
        n.SetString(s.data(), v.s.size());
      } else n.SetString(v.s.data(), v.s.size(), a);
      break;
    case JVal::Arr:
      n.SetArray();
      if (st.reserve) n.Reserve(v.a.size() + r.below(9), a);
      for (auto& e : v.a) {
        NodeT c;
        styled_build(c, e, a, r, st);
        n.PushBack(std::move(c), a);
      }
      break;
    case JVal::Obj:
      n.SetObject();
      if (st.reserve) n.MemberReserve(v.o.size() + r.below(9), a);
      for (auto& m : v.o) {
        NodeT c;
        styled_build(c, m.second, a, r, st);
        bool copy = !(st.sm == su::kStrConst || (st.sm == su::kStrMixed && r.coin()));
        const std::string& ks = copy ? m.first : keep(m.first);
        n.AddMember(StringView(ks.data(), m.first.size()), std::move(c), a, copy);
      }
      if (st.map && r.coin()) { n.CreateMap(a); c18_map.add(); }
      break;
    default: su::build_node(n, v, a); break;
  }
}

// a variant of v: identical / permuted / one leaf, key, kind or length changed
static JVal variant_of(const JVal& v, vf::Rng& r, std::string& kind) {
  JVal w = v;
  std::function<void(JVal&)> permute = [&](JVal& x) {
    if (x.k == JVal::Obj && x.o.size() > 1) {
      for (size_t i = x.o.size() - 1; i > 0; i--) std::swap(x.o[i], x.o[r.below(i + 1)]);
    }
    for (auto& e : x.a) permute(e);
    for (auto& m : x.o) permute(m.second);
  };
  // collect leaf pointers
  std::vector<JVal*> leaves;
  std::vector<JVal*> objs, arrs;
  std::function<void(JVal&)> walk = [&](JVal& x) {
    if (x.k == JVal::Arr) { arrs.push_back(&x); for (auto& e : x.a) walk(e); }
    else if (x.k == JVal::Obj) { objs.push_back(&x); for (auto& m : x.o) walk(m.second); }
    else leaves.push_back(&x);
  };
  walk(w);
  switch (r.below(9)) {
    case 0: kind = "identical"; break;
    case 1: kind = "permuted"; permute(w); c18_perm.add(); break;
    case 2: {  // number kind change: 1 vs 1.0, -0.0 vs 0.0, 2^63 as uint vs double
      kind = "kind-changed";
      std::vector<JVal*> nums;
      for (auto* l : leaves) if (l->is_num()) nums.push_back(l);
      if (nums.empty()) { kind = "identical"; break; }
      JVal* n = nums[r.below(nums.size())];
      c18_kind.add();
      if (n->k == JVal::Uint) *n = JVal::dbl((double)n->u);
      else if (n->k == JVal::Int) *n = JVal::dbl((double)(int64_t)n->u);
      else { double d = n->as_double(); if (d == 0) *n = JVal::dbl(std::signbit(d) ? 0.0 : -0.0); else if (d == floor(d) && fabs(d) < 1e15) *n = JVal::sint((int64_t)d); else *n = JVal::dbl(-d); }
      break;
    }
    case 3: {  // one leaf changed
      kind = "leaf-changed";
      if (leaves.empty()) { kind = "identical"; break; }
      JVal* l = leaves[r.below(leaves.size())];
      JVal nv;
      do nv = small_value(r, 3); while (nv.k == JVal::Arr || nv.k == JVal::Obj || jm::equal(nv, *l));
      *l = nv;
      break;
    }
    case 4: {  // string length changed (prefix / extension: may share its address with the original when const)
      kind = "string-length-changed";
      std::vector<JVal*> strs;
      for (auto* l : leaves) if (l->k == JVal::Str) strs.push_back(l);
      if (strs.empty()) { kind = "identical"; break; }
      JVal* s = strs[r.below(strs.size())];
      if (!s->s.empty() && r.coin()) s->s.pop_back(); else s->s += "~";
      break;
    }
    case 5: {  // one key changed
      kind = "key-changed";
      std::vector<JVal*> ne;
      for (auto* o : objs) if (!o->o.empty()) ne.push_back(o);
      if (ne.empty()) { kind = "identical"; break; }
      JVal* o = ne[r.below(ne.size())];
      size_t i = r.below(o->o.size());
      std::string nk = o->o[i].first;
      if (!nk.empty() && r.coin()) nk.back() ^= 1; else nk += "x";
      bool clash = false;
      for (auto& m : o->o) if (m.first == nk) clash = true;
      if (clash) { kind = "identical"; break; }
      o->o[i].first = nk;
      break;
    }
    case 6: {  // container length changed
      kind = "length-changed";
      if (!arrs.empty() && r.coin()) { JVal* a = arrs[r.below(arrs.size())]; if (!a->a.empty() && r.coin()) a->a.pop_back(); else a->a.push_back(JVal::null()); }
      else if (!objs.empty()) { JVal* o = objs[r.below(objs.size())]; if (!o->o.empty() && r.coin()) o->o.pop_back(); else o->o.emplace_back("extra-key-" + std::to_string(r.below(1000000)), JVal::null()); }
      else kind = "identical";
      break;
    }
    case 7: {  // array order changed (arrays are ordered: must differ unless elements equal)
      kind = "array-reordered";
      std::vector<JVal*> big;
      for (auto* a : arrs) if (a->a.size() > 1) big.push_back(a);
      if (big.empty()) { kind = "identical"; break; }
      JVal* a = big[r.below(big.size())];
      std::swap(a->a[0], a->a[a->a.size() - 1]);
      break;
    }
    default: kind = "permuted+identical"; permute(w); c18_perm.add(); break;
  }
  return w;
}

template <class NA, class NB>
static void compare_pair(const NA& a, const NB& b, const JVal& ma, const JVal& mb, const std::string& what, const char* cfg) {
  c18_pairs.add();
  vf::eval();
  bool want = jm::equal_unordered(ma, mb);
  if (want) c18_eq.add(); else c18_ne.add();
  bool ab = (a == b), ba = (b == a), nab = (a != b), nba = (b != a);
  std::string ctx = std::string(cfg) + " [" + what + "] a=" + jm::describe(ma, 150) + " b=" + jm::describe(mb, 150);
  if (ab != ba) vf::violation("equality-not-symmetric:" + what, ctx + ": a==b is " + std::to_string(ab) + " but b==a is " + std::to_string(ba));
  if (nab == ab || nba == ba) vf::violation("not-equal-is-not-negation:" + what, ctx);
  if (ab != want) vf::violation(std::string(want ? "equal-values-compare-unequal:" : "different-values-compare-equal:") + what, ctx);
}

// objects whose keys are long, of different lengths, share their first 32+ bytes and differ in a middle block and in the
// tail; one side carries lookup maps
static vf::Counter c18_longkeys("pairs:objects-with-long-shared-prefix-keys(map on one side)");
static void c18_longkey_case(vf::Rng& r) {
  JVal v = JVal::obj();
  size_t n = r.range(3, 24);
  bool nul_family = r.below(4) == 0;  // keys of 16+ bytes with a NUL at the same offset, differing only after it
  std::string prefix(r.range(32, 48), 'p');
  for (auto& c : prefix) c = (char)r.range(0x21, r.coin() ? 0x7e : 0xff);
  for (size_t i = 0; i < n; i++) {
    std::string mid(r.range(10, 70), 'm');
    for (auto& c : mid) c = (char)('a' + r.below(2));
    std::string k = prefix + mid + "#" + std::to_string(i) + std::string(r.below(30), (char)r.range(0x21, 0xff));
    if (nul_family) k = prefix.substr(0, 8) + std::string(1, '\0') + mid.substr(0, 6) + std::string(1, (char)('a' + i % 26)) + std::to_string(i);
    v.o.emplace_back(k, JVal::uint(i));
  }
  if (jm::has_dup_keys(v)) return;
  std::string kind;
  JVal w = v;
  for (size_t i = w.o.size() - 1; i > 0; i--) std::swap(w.o[i], w.o[r.below(i + 1)]);
  bool changed = r.below(3) == 0;
  if (changed) w.o[r.below(w.o.size())].second = JVal::str("changed");
  c18_longkeys.add();
  vf::witness(jm::describe(v, 2000));
  vf::distinct(jm::hash_val(v));
  BuildStyle plain{su::kStrCopy, false, false, false, false}, mapped{su::kStrMixed, true, true, false, false};
  su::PoolDoc a, b;
  styled_build(static_cast<su::PoolNode&>(a), v, a.GetAllocator(), r, plain);
  styled_build(static_cast<su::PoolNode&>(b), w, b.GetAllocator(), r, mapped);
  if (b.IsObject()) b.CreateMap(b.GetAllocator());
  compare_pair(a, b, v, w, changed ? "long-keys:value-changed" : "long-keys:permuted", "plain-vs-mapped");
  compare_pair(b, b, w, w, "long-keys:self", "mapped-vs-mapped");
  su::PoolNode copy(b, b.GetAllocator(), true);
  copy.CreateMap(b.GetAllocator());
  if (!(copy == b) || !(b == copy)) vf::violation("deep-copy-not-equal", "long keys, both with map");
  for (auto& m : w.o)
    if (!b.HasMember(StringView(m.first.data(), m.first.size()))) {
      vf::violation("long-keys:present-member-not-found-through-map", "key of " + std::to_string(m.first.size()) + " bytes");
      break;
    }
}

// node == scalar must agree with node == Node(scalar) and with the model (kind and value)
static vf::Counter c18_scalar("scalar-comparisons(node == bool/int/uint/double/string)");
template <class T>
static void scalar_check(const su::PoolNode& n, const JVal& m, T x, const JVal& mx, const char* what) {
  c18_scalar.add();
  vf::eval();
  bool got = (n == x), neg = (n != x);
  bool want = jm::equal_unordered(m, mx);
  if (got == neg) vf::violation(std::string("scalar-not-equal-is-not-negation:") + what, jm::describe(m, 80));
  if (got != want)
    vf::violation(std::string(want ? "scalar-equal-compares-unequal:" : "scalar-different-compares-equal:") + what,
                  "node " + jm::describe(m, 80) + " == " + jm::describe(mx, 80) + " gave " + std::to_string(got));
}
static void c18_scalar_case(vf::Rng& r) {
  su::PoolDoc d;
  JVal m;
  switch (r.below(8)) {
    case 0: m = JVal::uint(r.coin() ? UINT64_MAX - r.below(3) : (1ULL << 63) + r.below(3) - 1); break;
    case 1: m = JVal::sint(r.coin() ? -(int64_t)r.below(3) - 1 : INT64_MIN + (int64_t)r.below(3)); break;
    case 2: m = JVal::uint(r.below(5)); break;
    case 3: m = JVal::dbl((double)(int64_t)r.below(5) - 2.0); break;
    case 4: m = JVal::boolean(r.coin()); break;
    case 5: m = JVal::null(); break;
    case 6: m = JVal::str(r.coin() ? "abc" : "ab"); break;
    default: m = JVal::uint(r.next()); break;
  }
  su::build_node(static_cast<su::PoolNode&>(d), m, d.GetAllocator());
  vf::witness(jm::describe(m, 200));
  vf::distinct(jm::hash_val(m) ^ r.s);
  const su::PoolNode& n = d;
  static const uint64_t us[] = {0, 1, 2, (1ULL << 63) - 1, 1ULL << 63, (1ULL << 63) + 1, UINT64_MAX - 1, UINT64_MAX, 4};
  static const int64_t is[] = {0, 1, -1, -2, INT64_MIN, INT64_MIN + 1, INT64_MAX, 3, -3};
  for (uint64_t u : us) scalar_check<uint64_t>(n, m, u, JVal::uint(u), "uint64");
  for (int64_t i : is) scalar_check<int64_t>(n, m, i, JVal::sint(i), "int64");
  if (m.is_num() && m.k != JVal::Dbl) {
    scalar_check<uint64_t>(n, m, m.u, JVal::uint(m.u), "uint64-same-bits");
    scalar_check<int64_t>(n, m, (int64_t)m.u, JVal::sint((int64_t)m.u), "int64-same-bits");
  }
  for (int i : {0, 1, -1, 2}) scalar_check<int>(n, m, i, JVal::sint(i), "int");
  for (double x : {0.0, -0.0, 1.0, -1.0, -2.0, 2.0}) scalar_check<double>(n, m, x, JVal::dbl(x), "double");
  scalar_check<bool>(n, m, true, JVal::boolean(true), "bool");
  scalar_check<bool>(n, m, false, JVal::boolean(false), "bool");
  if (m.k == JVal::Str) {
    for (const char* t : {"abc", "ab", "abcd", ""}) {
      c18_scalar.add();
      bool got = (n == StringView(t)), want = m.s == t;
      if (got != want || (n != StringView(t)) == got) vf::violation("scalar-string-comparison", "node \"" + m.s + "\" == \"" + t + "\" gave " + std::to_string(got));
    }
  }
}

static void c18_case(vf::Rng& r) {
  jm::GenOpts go;
  go.max_depth = 4;
  go.dup_keys = false;
  go.max_members = 6;
  JVal v = jm::gen_document(r, go);
  // concretise generator numbers
  std::function<void(JVal&)> conc = [&](JVal& x) {
    if (x.is_num() && !x.s.empty()) { jm::RefResult rr = jm::ref_parse(x.s); x = rr.ok ? rr.v : JVal::uint(1); }
    for (auto& e : x.a) conc(e);
    for (auto& m : x.o) conc(m.second);
  };
  conc(v);
  if (jm::has_dup_keys(v)) return;
  std::string kind1, kind2;
  JVal w = variant_of(v, r, kind1);
  JVal u = variant_of(w, r, kind2);
  vf::distinct(vf::hash_combine(jm::hash_val(v), jm::hash_val(w)));
  vf::witness(jm::describe(v, 3000) + " || " + jm::describe(w, 3000));
  BuildStyle s1{(su::StrMode)r.below(3), r.coin(), r.coin(), r.coin(), r.coin()}, s2{(su::StrMode)r.below(3), r.coin(), r.coin(), r.coin(), r.coin()},
      s3{(su::StrMode)r.below(3), r.coin(), r.coin(), r.coin(), r.coin()};
  su::PoolDoc pa, pb, pc;
  styled_build(static_cast<su::PoolNode&>(pa), v, pa.GetAllocator(), r, s1);
  styled_build(static_cast<su::PoolNode&>(pb), w, pb.GetAllocator(), r, s2);
  styled_build(static_cast<su::PoolNode&>(pc), u, pc.GetAllocator(), r, s3);
  su::SimpleDoc sa, sb;
  styled_build(static_cast<su::SimpleNode&>(sa), v, sa.GetAllocator(), r, s2);
  styled_build(static_cast<su::SimpleNode&>(sb), w, sb.GetAllocator(), r, s3);
  // reflexivity
  if (!(pa == pa) || (pa != pa) || !(sa == sa)) vf::violation("equality-not-reflexive", jm::describe(v, 200));
  // the same value through two histories / allocator types
  compare_pair(pa, sa, v, v, "same-value-different-history", "pool-vs-malloc");
  c18_cross.add();
  compare_pair(pa, pb, v, w, kind1, "pool-vs-pool");
  compare_pair(pa, sb, v, w, kind1, "pool-vs-malloc");
  compare_pair(sa, sb, v, w, kind1, "malloc-vs-malloc");
  compare_pair(pb, pc, w, u, kind2, "pool-vs-pool");
  // transitivity on (a,b,c)
  c18_tri.add();
  if ((pa == pb) && (pb == pc) && !(pa == pc)) vf::violation("equality-not-transitive", "a==b and b==c but a!=c: " + jm::describe(v, 100) + " / " + jm::describe(w, 100) + " / " + jm::describe(u, 100));
  if ((pa == sb) && (sb == pc) && !(pa == pc)) vf::violation("equality-not-transitive", "across allocators");
  // deep copy and parse of the serialised text are equal to the original
  c18_rt.add();
  su::PoolNode copy1(pa, pa.GetAllocator(), r.coin());
  sonic_json::SimpleAllocator sal;
  su::SimpleNode copy2(pa, sal, true);
  if (!(copy1 == pa) || !(pa == copy1)) vf::violation("deep-copy-not-equal", "same allocator type: " + jm::describe(v, 200));
  if (!(copy2 == pa) || !(pa == copy2)) vf::violation("deep-copy-not-equal", "other allocator type: " + jm::describe(v, 200));
  std::string dump = pa.Dump();
  su::PoolDoc back;
  back.Parse(dump.data(), dump.size());
  if (back.HasParseError() || !(back == pa) || !(pa == back)) vf::violation("parse-of-dump-not-equal", "dump=" + vf::printable(dump, 200) + " model=" + jm::describe(v, 200));
  su::SimpleDoc back2;
  back2.Parse(dump.data(), dump.size());
  if (back2.HasParseError() || !(back2 == pa) || !(pa == back2) || !(back2 == sa)) vf::violation("parse-of-dump-not-equal", "malloc document");
}

// C18: equality must keep holding when the document a value came from goes through later events.  B takes values from A
// (default CopyFrom, CopyFrom with copyString, nodes moved out - A and B live on one pool), a deep copy C of B and a fresh
// parse P of the same text are the witnesses; then A is parsed again with a shorter text, or destroyed.
static vf::Counter c18_src("equality-after-source-document-events");
static void c18_source_events_case(vf::Rng& r) {
  jm::GenOpts go;
  go.max_depth = 3;
  JVal v = jm::gen_document(r, go);
  if (v.k != JVal::Obj && v.k != JVal::Arr) v = JVal::arr();
  if (v.k == JVal::Arr) { v.a.push_back(JVal::str(std::string(r.range(1, 40), 's'))); JVal o = JVal::obj(); o.o.emplace_back("name" + std::to_string(r.below(100)), JVal::str("value")); v.a.push_back(o); }
  else { v.o.emplace_back("sname" + std::to_string(r.below(100)), JVal::str(std::string(r.range(1, 40), 't'))); }
  if (jm::has_dup_keys(v)) return;
  std::string text = jm::render_compact(v);
  c18_src.add();
  vf::eval();
  vf::witness(text);
  vf::distinct(vf::hash_str(text) ^ r.s);
  bool freeing = r.coin();
  bool ok = true;
  std::string what;
  auto body = [&](auto* docp) {
    using Doc = typename std::remove_pointer<decltype(docp)>::type;
    using NodeT = typename Doc::NodeType;
    typename Doc::Allocator shared;
    Doc b(&shared), p(&shared);
    p.Parse(text.data(), text.size());
    int how = (int)r.below(3);
    {
      std::unique_ptr<Doc> a(new Doc(&shared));
      a->Parse(text.data(), text.size());
      if (a->HasParseError() || p.HasParseError()) return;
      if (how == 0) { b.CopyFrom(*a, shared); what = "CopyFrom(default)"; }
      else if (how == 1) { b.CopyFrom(*a, shared, true); what = "CopyFrom(copyString)"; }
      else {  // move the children out one by one (pool documents only: the strings stay in the shared pool)
        if (freeing) { b.CopyFrom(*a, shared, true); what = "CopyFrom(copyString)"; }
        else {
          what = "children moved out";
          if (a->IsArray()) { b.SetArray(); for (size_t i = 0; i < a->Size(); i++) b.PushBack(std::move((*a)[i]), shared); }
          else { b.SetObject(); for (auto it = a->MemberBegin(); it != a->MemberEnd(); ++it) b.AddMember(it->name.GetStringView(), std::move(it->value), shared, true); }
        }
      }
      NodeT c(b, shared, true);
      bool eq0 = (b == c) && (c == b) && (b == p) && (p == b);
      // the source goes through its events
      if (r.coin()) { std::string t2 = "[" + std::to_string(r.below(10)) + "]"; a->Parse(t2.data(), t2.size()); what += ", source parsed again"; }
      else { a.reset(); what += ", source destroyed"; }
      bool eq1 = (b == c) && (c == b) && (b == p) && (p == b);
      std::string d1 = b.Dump(), d2 = p.Dump();
      if (!eq0 || !eq1 || d1 != d2) ok = false;
    }
  };
  if (freeing) body((su::SimpleDoc*)nullptr); else body((su::PoolDoc*)nullptr);
  if (!ok) vf::violation("equality-lost-after-source-event:" + std::string(freeing ? "freeing" : "pool"), what + "; text " + vf::printable(text, 200));
}

#ifndef VF_FUZZ_TARGET
int main(int argc, char** argv) {
  for (int i = 1; i + 1 < argc; i++)
    if (std::string(argv[i]) == "--prop") g_prop = argv[i + 1];
  std::vector<vf::Stream> S;
  auto trim_pool = []() {
    if (const_pool().size() > 4000) const_pool().clear();
  };
  if (g_prop == "C12") {
    S.push_back({"histories_pool", 12000, 400000, [trim_pool](uint64_t, vf::Rng& r) { c12_history<su::PoolDoc>(r, "pool"); trim_pool(); }});
    S.push_back({"histories_malloc", 12000, 400000, [trim_pool](uint64_t, vf::Rng& r) { c12_history<su::SimpleDoc>(r, "malloc"); trim_pool(); }});
  } else if (g_prop == "C13") {
    S.push_back({"histories_ledger", 20000, 600000, [trim_pool](uint64_t, vf::Rng& r) { c13_history(r); trim_pool(); }});
    S.push_back({"lazy_merge_ledger", 20000, 600000, [](uint64_t, vf::Rng& r) { c13_lazy_case(r); }});
    S.push_back({"lazy_invalid_text_ledger", 20000, 600000, [](uint64_t, vf::Rng& r) { c13_lazy_invalid_case(r); }});
    S.push_back({"pool_handles_over_ledger", 10000, 300000, [](uint64_t, vf::Rng& r) { c13_pool_handles_case(r); }});
  } else {
    S.push_back({"pairs_and_triples", 60000, 3000000, [trim_pool](uint64_t, vf::Rng& r) { c18_case(r); trim_pool(); }});
    S.push_back({"long_shared_prefix_keys", 8000, 400000, [trim_pool](uint64_t, vf::Rng& r) { c18_longkey_case(r); trim_pool(); }});
    S.push_back({"node_vs_scalar", 4000, 100000, [](uint64_t, vf::Rng& r) { c18_scalar_case(r); }});
    S.push_back({"equality_after_source_events", 8000, 300000, [](uint64_t, vf::Rng& r) { c18_source_events_case(r); }});
  }
  return vf::run(argc, argv, S);
}
#endif  // VF_FUZZ_TARGET
