// lazy_harness.cpp -- C20: UpdateLazy(target, source) is a faithful recursive object merge.
// Oracle: model merge on reference-parsed trees (target order kept, new keys appended in source order, keys
// matched by decoded bytes); the result text must be accepted by the reference recogniser and equal the model.
#include "common/jmodel.h"
#include "common/sonic_util.h"
#include "common/vf.h"
#include "sonic/experiment/lazy_update.h"

using jm::JVal;
using namespace sonic_json;

static vf::Counter c_pairs("(target,source)-pairs"), c_kinds("root-kind-combinations-seen"), c_esc("pairs-with-escaped-keys"), c_esc_both("pairs-where-one-key-is-spelled-differently-on-both-sides"),
    c_nested("pairs-with-nested-object-merge(depth>=2)"), c_new("pairs-appending-new-keys"), c_big("pairs-with->=100-members"), c_ws("pairs-with-whitespace"), c_empty("pairs-with-empty-object-side"),
    c_prefix("pairs-with-prefix-related-keys");

static JVal merge(const JVal& t, const JVal& s, int depth, int& maxd) {
  if (depth > maxd) maxd = depth;
  if (t.k == JVal::Obj && s.k == JVal::Obj && !t.o.empty()) {
    JVal out = t;
    for (auto& sm : s.o) {
      bool found = false;
      for (auto& tm : out.o)
        if (tm.first == sm.first) {
          tm.second = merge(tm.second, sm.second, depth + 1, maxd);
          found = true;
          break;
        }
      if (!found) out.o.emplace_back(sm.first, sm.second);
    }
    return out;
  }
  return s;
}

static uint64_t g_seen[9][9];

static void judge(const std::string& target, const std::string& source, const char* family) {
  jm::RefResult rt = jm::ref_parse(target), rs = jm::ref_parse(source);
  if (!rt.ok || !rs.ok) {
    vf::count("harness:generated-text-invalid");
    return;
  }
  if (jm::has_dup_keys(rt.v) || jm::has_dup_keys(rs.v)) return;
  c_pairs.add();
  vf::eval();
  vf::distinct(vf::hash_combine(vf::hash_str(target), vf::hash_str(source)));
  std::string w = target + " <== " + source;
  vf::witness(w);
  if (g_seen[rt.v.k][rs.v.k]++ == 0) c_kinds.add();
  bool esc = target.find('\\') != std::string::npos || source.find('\\') != std::string::npos;
  int maxd = 0;
  JVal want = merge(rt.v, rs.v, 1, maxd);
  if (maxd >= 2) c_nested.add();
  if (want.k == JVal::Obj && rt.v.k == JVal::Obj && want.o.size() > rt.v.o.size()) c_new.add();
  if ((rt.v.k == JVal::Obj && rt.v.o.size() >= 100) || (rs.v.k == JVal::Obj && rs.v.o.size() >= 100)) c_big.add();
  if ((rt.v.k == JVal::Obj && rt.v.o.empty()) || (rs.v.k == JVal::Obj && rs.v.o.empty())) c_empty.add();
  // exact heap copies: the scanner works on the caller's unpadded buffers
  char* tb = (char*)malloc(target.size() ? target.size() : 1);
  char* sb = (char*)malloc(source.size() ? source.size() : 1);
  memcpy(tb, target.data(), target.size());
  memcpy(sb, source.data(), source.size());
  vf::note("UpdateLazy");
  std::string out = UpdateLazy(StringView(tb, target.size()), StringView(sb, source.size()));
  free(tb);
  free(sb);
  std::string cls = std::string(family) + (esc ? ":escaped-keys-or-strings" : ":plain");
  jm::RefResult ro = jm::ref_parse(out);
  std::string ctx = "target=" + vf::printable(target, 200) + " source=" + vf::printable(source, 200) + " result=" + vf::printable(out, 250);
  if (!ro.ok) {
    vf::violation("result-not-valid-json:" + cls, ctx);
    return;
  }
  if (!jm::equal(ro.v, want)) {
    std::string d = jm::first_diff(ro.v, want);
    std::string kind = (ro.v.k == JVal::Obj && ro.v.o.empty() && !(want.k == JVal::Obj && want.o.empty())) ? "result-is-empty-object" : "merge-mismatch";
    vf::violation(kind + ":" + cls, "first difference (result vs model) " + d + " ; " + ctx);
  }
}

static std::string render_with(const JVal& v, vf::Rng& r, unsigned ws, unsigned esc) {
  jm::RenderOpts ro;
  ro.ws_percent = ws;
  ro.esc_percent = esc;
  ro.long_ws_permille = 20;
  return jm::render(v, r, ro);
}

static JVal gen_objecty(vf::Rng& r, int depth, size_t members, bool hostile_keys) {
  JVal o = JVal::obj();
  for (size_t i = 0; i < members; i++) {
    std::string k;
    switch (hostile_keys ? r.below(6) : 5) {
      case 0: k = "a\nb" + std::to_string(i); break;
      case 1: k = "q\"" + std::to_string(i); break;
      case 2: k = "back\\slash" + std::to_string(i); break;
      case 3: k = "\xc3\xa9" + std::to_string(i); break;  // may be spelled é
      case 4: k = std::string(1, (char)r.range(1, 0x1f)) + "ctl" + std::to_string(i); break;
      default: k = "k" + std::to_string(i); break;
    }
    JVal v;
    if (depth < 4 && r.below(3) == 0) v = gen_objecty(r, depth + 1, r.below(5), hostile_keys);
    else {
      jm::GenOpts go;
      go.max_depth = 2;
      v = jm::gen_value(r, go, 1);
    }
    o.o.emplace_back(k, v);
  }
  return o;
}

// source derived from target: some keys overridden (any kind), nested objects recursed, new keys added
static JVal derive_source(const JVal& t, vf::Rng& r, int depth, bool hostile) {
  if (t.k != JVal::Obj || r.below(10) == 0) {
    jm::GenOpts go;
    go.max_depth = 3;
    return jm::gen_value(r, go, 0);
  }
  JVal s = JVal::obj();
  size_t fresh = 0;
  for (auto& m : t.o) {
    if (r.below(3) == 0) s.o.emplace_back("new" + std::to_string(depth) + "_" + std::to_string(fresh++) + (hostile && r.coin() ? "\t\"" : ""), jm::JVal::uint(r.below(100)));
    if (r.coin()) continue;
    if (m.second.k == JVal::Obj && r.below(3)) s.o.emplace_back(m.first, derive_source(m.second, r, depth + 1, hostile));
    else {
      jm::GenOpts go;
      go.max_depth = 2;
      s.o.emplace_back(m.first, r.below(4) == 0 ? JVal::obj() : jm::gen_value(r, go, 1));
    }
  }
  if (r.coin()) s.o.emplace_back("tail_new" + std::to_string(depth), JVal::arr());
  return s;
}

#ifndef VF_FUZZ_TARGET
int main(int argc, char** argv) {
  std::vector<vf::Stream> S;
  // every root kind combination, including empty containers
  S.push_back({"kind_matrix", 81 * 4, 81 * 40, [](uint64_t i, vf::Rng& r) {
                 static const char* vals[] = {"null", "true", "0", "-1", "1.5", "\"s\"", "[1,{\"a\":1}]", "{\"a\":1,\"b\":{\"c\":2}}", "{}"};
                 std::string t = vals[i % 9], s = vals[(i / 9) % 9];
                 if ((i / 81) & 1) { t = " " + t + " "; s = "\n" + s; }
                 if ((i / 81) & 2) { if (t.back() == '}' && t.size() > 2) t = "{\"a\":{\"x\":[]},\"b\":{\"c\":3,\"d\":4}}"; }
                 (void)r;
                 judge(t, s, "kind-matrix");
               }, false});
  S.push_back({"derived_pairs_plain_keys", 15000, 1500000, [](uint64_t, vf::Rng& r) {
                 JVal t = gen_objecty(r, 0, r.range(0, 8), false);
                 JVal s = derive_source(t, r, 0, false);
                 unsigned ws = (unsigned)r.pick(std::vector<unsigned>{0, 0, 10, 40});
                 if (ws) c_ws.add();
                 judge(render_with(t, r, ws, 0), render_with(s, r, ws, 0), "derived");
               }});
  // keys that need escapes, spelled independently on the two sides (raw vs \uXXXX vs two-character escapes)
  S.push_back({"derived_pairs_escaped_keys", 15000, 1500000, [](uint64_t, vf::Rng& r) {
                 JVal t = gen_objecty(r, 0, r.range(1, 8), true);
                 JVal s = derive_source(t, r, 0, true);
                 unsigned ws = (unsigned)r.pick(std::vector<unsigned>{0, 10});
                 std::string tt = render_with(t, r, ws, (unsigned)r.pick(std::vector<unsigned>{0, 30, 100}));
                 std::string ss = render_with(s, r, ws, (unsigned)r.pick(std::vector<unsigned>{0, 30, 100}));
                 if (tt.find('\\') != std::string::npos || ss.find('\\') != std::string::npos) c_esc.add();
                 if ((tt.find("\\u00") != std::string::npos) != (ss.find("\\u00") != std::string::npos)) c_esc_both.add();
                 judge(tt, ss, "derived");
               }});
  // keys related by prefix, and objects with up to 200 members
  S.push_back({"prefix_keys_and_big_objects", 3000, 200000, [](uint64_t, vf::Rng& r) {
                 JVal t = JVal::obj(), s = JVal::obj();
                 size_t n = r.below(5) == 0 ? r.range(100, 200) : r.range(1, 12);
                 std::string base = r.coin() ? "id" : "k";
                 for (size_t i = 0; i < n; i++) {
                   std::string k = base + std::string(i % 7, 'x') + (i >= 7 ? std::to_string(i) : "");
                   t.o.emplace_back(k, r.coin() ? JVal::uint(i) : gen_objecty(r, 3, 2, false));
                 }
                 c_prefix.add();
                 for (size_t i = 0; i < n; i++)
                   if (r.below(3) == 0) s.o.emplace_back(t.o[r.below(n)].first + (r.coin() ? "" : "x"), r.coin() ? JVal::str("v") : gen_objecty(r, 3, 2, false));
                 if (jm::has_dup_keys(s)) return;
                 judge(render_with(t, r, 0, 0), render_with(s, r, 0, 0), "prefix-keys");
               }});
  // empty containers spelled with blanks inside, at the root and nested, on either side
  S.push_back({"empty_containers_with_inner_blanks", 2000, 100000, [](uint64_t, vf::Rng& r) {
                 auto blank = [&](const char* open, const char* close) {
                   std::string b;
                   for (size_t k = r.range(1, 3); k; k--) b += " \n\t\r"[r.below(4)];
                   return std::string(open) + b + close;
                 };
                 auto val = [&](int depth, auto&& self) -> std::string {
                   switch (r.below(depth > 2 ? 4 : 7)) {
                     case 0: return blank("{", "}");
                     case 1: return blank("[", "]");
                     case 2: return "{}";
                     case 3: return std::to_string(r.below(10));
                     case 4: return "[" + self(depth + 1, self) + (r.coin() ? " , " + self(depth + 1, self) : "") + "]";
                     default: {
                       std::string o = "{";
                       size_t n = r.range(1, 3);
                       for (size_t k = 0; k < n; k++) o += (k ? "," : "") + std::string("\"k") + std::to_string(k) + "\":" + (r.coin() ? " " : "") + self(depth + 1, self);
                       return o + (r.coin() ? " }" : "}");
                     }
                   }
                 };
                 c_ws.add();
                 judge(val(0, val), val(0, val), "inner-blanks");
               }});
  // keys with bytes >= 0x80 next to ASCII keys, short (< 32 bytes) and long mixed in one object: the lookup map's
  // ordering has to be one ordering for all of them
  S.push_back({"high_byte_keys_short_and_long", 3000, 200000, [](uint64_t, vf::Rng& r) {
                 JVal t = JVal::obj(), s = JVal::obj();
                 size_t n = r.range(4, 20);
                 std::string stem(r.below(3) ? r.below(4) : r.range(28, 34), 'q');
                 for (size_t i = 0; i < n; i++) {
                   std::string k = stem;
                   k += r.coin() ? std::string("\xc3") + (char)r.range(0x80, 0xbf) : std::string(1, (char)r.range('a', 'z'));
                   k += std::string(r.coin() ? r.below(6) : r.range(24, 40), r.coin() ? 'z' : 'y');
                   if (r.coin()) k += "\xe2\x82\xac";
                   k += std::to_string(i);
                   t.o.emplace_back(k, r.coin() ? JVal::uint(i) : gen_objecty(r, 3, 2, true));
                 }
                 for (size_t i = 0; i < n; i++)
                   if (r.coin()) s.o.emplace_back(t.o[i].first, r.coin() ? JVal::str("new") : gen_objecty(r, 3, 2, true));
                 s.o.emplace_back("\xc3\xa9", JVal::uint(1));
                 s.o.emplace_back("z", JVal::uint(2));
                 if (jm::has_dup_keys(s) || jm::has_dup_keys(t)) return;
                 c_prefix.add();
                 judge(std::string(r.below(64), ' ') + render_with(t, r, 0, 0), std::string(r.below(64), ' ') + render_with(s, r, 0, 0), "high-byte-keys");
               }});
  S.push_back({"generated_any", 8000, 800000, [](uint64_t, vf::Rng& r) {
                 jm::GenOpts go;
                 go.max_depth = 4;
                 JVal t = jm::gen_document(r, go), s = r.coin() ? derive_source(t, r, 0, true) : jm::gen_document(r, go);
                 judge(render_with(t, r, 10, 10), render_with(s, r, 10, 10), "generated");
               }});
  return vf::run(argc, argv, S);
}
#endif  // VF_FUZZ_TARGET
