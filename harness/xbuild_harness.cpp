// xbuild_harness.cpp -- C15: all supported x86 build configurations compute identical results.
// The same deterministic corpus is run in every build; each case records a digest of everything the library
// computes for it (accept/reject, error code, offset, Dump bytes, on-demand code + slice bounds, UpdateLazy
// result, ParseSchema result, serialisation of an API-built document).  The driver compares the per-case
// digests of all builds.  Exemption exactly as the property states: when the reference parser places the first
// fault inside a malformed string literal, only accept/reject is compared.
#include "common/jmodel.h"
#include "common/sonic_util.h"
#include "common/vf.h"
#include "sonic/experiment/lazy_update.h"

using jm::JVal;
using namespace sonic_json;

static vf::Counter c_cases("corpus-lines"), c_valid("line:valid-text"), c_invalid("line:invalid-text"), c_strfault("line:fault-inside-string-literal(only accept/reject compared)"),
    c_od("on-demand-lookups"), c_lazy("UpdateLazy-calls"), c_schema("ParseSchema-calls"), c_api("api-built-documents-serialised");

static uint64_t H(uint64_t h, uint64_t x) { return vf::hash_combine(h, x); }

static void digest_line(const std::string& text, const JsonPointer& path, const std::string& second, const JVal* api_doc) {
  c_cases.add();
  vf::eval();
  vf::witness(text);
  vf::distinct(vf::hash_combine(vf::hash_str(text), vf::hash_str(second)));
  jm::RefResult ref = jm::ref_parse(text);
  bool string_fault = !ref.ok && ref.f.cls == jm::Fault::String;
  if (ref.ok) c_valid.add(); else c_invalid.add();
  if (string_fault) c_strfault.add();
  uint64_t h = 1;
  bool verbose = vf::args().verbose;
  // ---- Parse
  {
    char* b = (char*)malloc(text.size() ? text.size() : 1);
    memcpy(b, text.data(), text.size());
    su::PoolDoc d;
    d.Parse(b, text.size());
    free(b);
    h = H(h, d.HasParseError());
    if (!string_fault) {
      h = H(h, (uint64_t)d.GetParseError());
      h = H(h, d.GetErrorOffset());
    }
    if (!d.HasParseError()) h = vf::hash_str(d.Dump(), h);
    if (verbose) fprintf(stderr, "  Parse: err=%d off=%zu dump=%s\n", (int)d.GetParseError(), d.GetErrorOffset(), d.HasParseError() ? "-" : vf::printable(d.Dump(), 300).c_str());
  }
  // ---- on-demand
  {
    c_od.add();
    char* b = (char*)malloc(text.size() ? text.size() : 1);
    memcpy(b, text.data(), text.size());
    StringView target;
    ParseResult r = GetOnDemand(StringView(b, text.size()), path, target);
    // the error class inside a malformed string may differ per vector width; success/failure may not
    h = H(h, r.Error() == kErrorNone);
    if (ref.ok) {
      h = H(h, (uint64_t)r.Error());
      if (r.Error() == kErrorNone) {
        h = H(h, (uint64_t)(target.data() - b));
        h = H(h, target.size());
        h = H(h, r.Offset());
      }
    }
    if (verbose) fprintf(stderr, "  GetOnDemand: err=%d off=%zu slice=[%ld,+%zu)\n", (int)r.Error(), r.Offset(), r.Error() ? -1L : (long)(target.data() - b), target.size());
    free(b);
  }
  // ---- UpdateLazy / ParseSchema with the second text (both valid only: their behaviour on invalid input is not specified)
  jm::RefResult ref2 = jm::ref_parse(second);
  if (ref.ok && ref2.ok) {
    c_lazy.add();
    std::string u = UpdateLazy(StringView(text.data(), text.size()), StringView(second.data(), second.size()));
    h = vf::hash_str(u, h);
    if (verbose) fprintf(stderr, "  UpdateLazy: %s\n", vf::printable(u, 300).c_str());
    c_schema.add();
    su::PoolDoc d;
    d.Parse(text.data(), text.size());
    if (!d.HasParseError()) {
      d.ParseSchema(second.data(), second.size());
      h = H(h, (uint64_t)d.GetParseError());
      if (!d.HasParseError()) h = vf::hash_str(d.Dump(), h);
      if (verbose) fprintf(stderr, "  ParseSchema: err=%d dump=%s\n", (int)d.GetParseError(), d.HasParseError() ? "-" : vf::printable(d.Dump(), 300).c_str());
    }
  }
  // ---- serialisation of an API-built document (strings of arbitrary bytes, numbers of every kind)
  if (api_doc) {
    c_api.add();
    su::PoolDoc d;
    su::build_node(static_cast<su::PoolNode&>(d), *api_doc, d.GetAllocator());
    if (d.IsObject()) d.CreateMap(d.GetAllocator());
    WriteBuffer wb;
    SonicError e = d.Serialize(wb);
    h = H(h, (uint64_t)e);
    if (e == kErrorNone) h = vf::hash_bytes(wb.ToString(), wb.Size(), h);
    // lookups through the map / linear search
    if (d.IsObject())
      for (auto it = d.MemberBegin(); it != d.MemberEnd(); ++it) {
        auto sv = it->name.GetStringView();
        h = H(h, (uint64_t)(d.FindMember(sv) - d.MemberBegin()));
        h = H(h, (uint64_t)(d.FindMember(sv.data(), sv.size()) - d.MemberBegin()));
      }
    if (verbose) fprintf(stderr, "  api Serialize: err=%d %s\n", (int)e, e ? "-" : vf::printable(std::string(wb.ToString(), wb.Size()), 300).c_str());
  }
  vf::outcome(h);
}

static void concretise(JVal& v) {
  if (v.is_num() && !v.s.empty()) {
    jm::RefResult r = jm::ref_parse(v.s);
    v = r.ok ? r.v : JVal::uint(0);
  }
  for (auto& e : v.a) concretise(e);
  for (auto& m : v.o) concretise(m.second);
}

static JsonPointer path_into(const JVal& v, vf::Rng& r) {
  JsonPointer jp;
  const JVal* cur = &v;
  for (int d = 0; d < 4; d++) {
    if (cur->k == JVal::Obj && !cur->o.empty() && r.below(5)) {
      size_t i = r.below(cur->o.size());
      jp.push_back(JsonPointerNode(cur->o[i].first));
      cur = &cur->o[i].second;
    } else if (cur->k == JVal::Arr && !cur->a.empty() && r.below(5)) {
      size_t i = r.below(cur->a.size());
      jp.push_back(JsonPointerNode((int)i));
      cur = &cur->a[i];
    } else break;
  }
  if (r.below(5) == 0) {
    if (r.coin()) jp.push_back(JsonPointerNode(std::string("missing"))); else jp.push_back(JsonPointerNode((int)r.below(40)));
  }
  return jp;
}

int main(int argc, char** argv) {
  std::vector<vf::Stream> S;
  S.push_back({"valid_documents", 40000, 2000000, [](uint64_t, vf::Rng& r) {
                 jm::GenOpts go;
                 go.max_depth = 4;
                 go.dup_keys = r.below(6) == 0;
                 JVal v = jm::gen_document(r, go);
                 jm::RenderOpts ro;
                 ro.ws_percent = (unsigned)r.pick(std::vector<unsigned>{0, 10, 40});
                 ro.long_ws_permille = 20;
                 ro.esc_percent = (unsigned)r.pick(std::vector<unsigned>{0, 10, 60});
                 std::string text = std::string(r.below(64), ' ') + jm::render(v, r, ro);
                 JVal second = r.coin() ? jm::gen_document(r, go) : v;
                 std::string t2 = jm::render(second, r, ro);
                 JVal api = v;
                 concretise(api);
                 digest_line(text, path_into(v, r), t2, r.below(3) == 0 ? &api : nullptr);
               }});
  S.push_back({"mutated_documents", 40000, 2000000, [](uint64_t, vf::Rng& r) {
                 jm::GenOpts go;
                 go.max_depth = 3;
                 JVal v = jm::gen_document(r, go);
                 jm::RenderOpts ro;
                 std::string text = jm::render(v, r, ro);
                 int k = (int)r.range(1, 3);
                 for (int j = 0; j < k; j++) text = jm::mutate(text, r);
                 digest_line(text, path_into(v, r), "{\"a\":1}", nullptr);
               }});
  // strings: escapes, control bytes and quotes at every alignment to 16/32-byte blocks (as value, as key, on-demand key)
  S.push_back({"string_hazards", 30000, 1500000, [](uint64_t, vf::Rng& r) {
                 size_t n = r.range(0, 100);
                 std::string raw;
                 for (size_t k = 0; k < n; k++) {
                   switch (r.below(14)) {
                     case 0: raw += "\\"; raw += "\"\\/bfnrt"[r.below(8)]; break;
                     case 1: { char b[8]; snprintf(b, sizeof b, r.coin() ? "\\u%04x" : "\\u%04X", (unsigned)r.below(0x10000)); raw += b; break; }
                     case 2: if (r.below(10) == 0) raw += (char)r.below(0x20); else raw += 'c'; break;
                     case 3: if (r.below(10) == 0) raw += "\\" + std::string(1, (char)r.below(256)); else raw += 'e'; break;
                     case 4: raw += (char)r.range(0x80, 0xff); break;
                     default: raw += (char)r.range(0x23, 0x5b); break;
                   }
                 }
                 std::string pad(r.below(40), ' ');
                 std::string text;
                 JsonPointer jp;
                 switch (r.below(3)) {
                   case 0: text = "[" + pad + "\"" + raw + "\"]"; jp.push_back(JsonPointerNode(0)); break;
                   case 1: text = "{" + pad + "\"" + raw + "\":1,\"z\":[2]}"; jp.push_back(JsonPointerNode(std::string("z"))); break;
                   default: {
                     text = "{\"a\":[]," + pad + "\"" + raw + "\":{\"k\":\"" + raw + "\"}}";
                     std::string dec;
                     jm::Fault f;
                     size_t i = 0;
                     std::string lit = "\"" + raw + "\"";
                     if (jm::ref_string((const unsigned char*)lit.data(), lit.size(), i, &dec, f)) jp.push_back(JsonPointerNode(dec)); else jp.push_back(JsonPointerNode(std::string("x")));
                   }
                 }
                 JVal api = JVal::obj();
                 std::string dec(raw.size(), 0);
                 for (size_t k = 0; k < raw.size(); k++) dec[k] = (char)r.below(256);
                 api.o.emplace_back(dec, JVal::str(dec));
                 api.o.emplace_back(dec + "2", JVal::str(raw));
                 digest_line(text, jp, text, &api);
               }});
  S.push_back({"numbers", 30000, 1500000, [](uint64_t, vf::Rng& r) {
                 std::string text = "[";
                 JVal api = JVal::arr();
                 size_t n = r.range(1, 12);
                 for (size_t k = 0; k < n; k++) {
                   std::string t = jm::gen_number_text_any(r);
                   text += (k ? "," : "") + t;
                   jm::RefResult rr = jm::ref_parse(t);
                   if (rr.ok) api.a.push_back(rr.v);
                 }
                 text += "]";
                 JsonPointer jp;
                 jp.push_back(JsonPointerNode((int)r.below(n + 1)));
                 digest_line(text, jp, "[]", &api);
               }});
  S.push_back({"hostile_shapes", 4000, 200000, [](uint64_t, vf::Rng& r) {
                 JsonPointer jp;
                 jp.push_back(JsonPointerNode((int)r.below(3)));
                 digest_line(jm::hostile_text(r, 300), jp, "{}", nullptr);
               }});
  return vf::run(argc, argv, S);
}
