// serialize_harness.cpp -- C06: Serialize output is valid JSON that parses back to an equal document,
// for documents built by parsing or through the mutation API, in every write-buffer starting state.
#include <cfloat>
#include <cmath>

#include "common/jmodel.h"
#include "common/sonic_util.h"
#include "common/vf.h"

using jm::JVal;
using namespace sonic_json;

static vf::Counter c_docs("documents-serialised"), c_parsed("built:by-parsing"), c_api("built:through-mutation-api"), c_dup("shape:duplicate-keys"),
    c_scalar_root("shape:scalar-root"), c_empty_last("shape:empty-container-last-child"), c_nonfinite("non-finite-documents"), c_buf_fresh("buffer:fresh"),
    c_buf_cap("buffer:explicit-small-capacity"), c_buf_reused("buffer:reused"), c_buf_moved("buffer:moved-from"), c_fill("fill-level-sweep-documents"),
    c_near_cap("fill-level:final-size-within-8-bytes-of-a-power-of-two");

// turn generator numbers (spellings) into concrete values by reference-parsing them
static void concretise(JVal& v) {
  if (v.is_num() && !v.s.empty()) {
    jm::RefResult r = jm::ref_parse(v.s);
    v = r.ok ? r.v : JVal::uint(0);
  }
  for (auto& e : v.a) concretise(e);
  for (auto& m : v.o) concretise(m.second);
}

enum BufState { kFresh, kCap, kReusedLarger, kReusedSmaller, kMoved };

template <class DocT>
static void judge_doc(DocT& d, const JVal& model, WriteBuffer& wb, const char* how) {
  c_docs.add();
  vf::eval();
  vf::note("Serialize");
  SonicError e = d.Serialize(wb);
  std::string ctx = std::string(how) + " model=" + jm::describe(model, 200);
  if (e != kErrorNone) {
    vf::violation("serialize-error-on-finite-document", ctx + " -> error " + std::to_string((int)e));
    return;
  }
  size_t sz = wb.Size();
  const char* cs = wb.ToString();
  std::string out(cs, sz);
  if (strlen(cs) != sz) vf::violation("size-vs-tostring", ctx + ": Size()=" + std::to_string(sz) + " strlen(ToString())=" + std::to_string(strlen(cs)));
  {
    size_t p2 = 256;
    while (p2 < sz) p2 <<= 1;
    if (p2 - sz <= 8) c_near_cap.add();
  }
  // (1) accepted by the independent recogniser and denotes the model
  jm::RefResult rr = jm::ref_parse(out);
  if (!rr.ok) {
    vf::violation("output-not-valid-json", ctx + " output=" + vf::printable(out, 300) + " fault at " + std::to_string(rr.f.pos));
    return;
  }
  if (!jm::equal(rr.v, model)) {
    vf::violation("output-denotes-other-value", ctx + " first difference (output vs model) " + jm::first_diff(rr.v, model) + " output=" + vf::printable(out, 200));
    return;
  }
  // (2) the library parses it back to an equal document, kinds kept
  vf::note("Parse(serialised)");
  su::PoolDoc back;
  back.Parse(out.data(), out.size());
  if (back.HasParseError()) {
    vf::violation("library-rejects-own-output", ctx + " output=" + vf::printable(out, 300));
    return;
  }
  JVal got;
  std::string why;
  if (!su::read_node(back, got, why) || !jm::equal(got, model))
    vf::violation("reparse-differs", ctx + " first difference " + jm::first_diff(got, model));
  if (!jm::has_dup_keys(model)) {
    if (!(back == d) || (back != d)) vf::violation("reparse-not-equal(operator==)", ctx);
  }
  // (3) re-serialisation is byte-identical; Dump agrees
  WriteBuffer wb2;
  if (back.Serialize(wb2) != kErrorNone || std::string(wb2.ToString(), wb2.Size()) != out)
    vf::violation("reserialise-differs", ctx + " first=" + vf::printable(out, 150) + " second=" + vf::printable(std::string(wb2.ToString(), wb2.Size()), 150));
  if (d.Dump() != out) vf::violation("dump-differs-from-serialize", ctx);
}

static WriteBuffer make_buffer(BufState st, vf::Rng& r, su::PoolDoc* helper) {
  switch (st) {
    case kFresh: c_buf_fresh.add(); return WriteBuffer();
    case kCap: {
      static const size_t caps[] = {0, 1, 7, 8, 9, 63, 64, 255, 256, 257, 4096};
      c_buf_cap.add();
      return WriteBuffer(caps[r.below(sizeof caps / sizeof *caps)]);
    }
    case kReusedLarger:
    case kReusedSmaller: {
      c_buf_reused.add();
      WriteBuffer wb;
      // serialise another document first
      helper->SetArray();
      size_t n = st == kReusedLarger ? r.range(200, 2000) : r.range(0, 3);
      for (size_t i = 0; i < n; i++) helper->PushBack(su::PoolNode((uint64_t)i), helper->GetAllocator());
      helper->Serialize(wb);
      return wb;
    }
    default: {
      c_buf_moved.add();
      WriteBuffer a;
      a.Push("junk", 4);
      WriteBuffer b(std::move(a));
      (void)b;
      return a;  // NOLINT: the moved-from buffer is what we want to reuse
    }
  }
}

static void mark_shapes(const JVal& v, bool root = true) {
  if (root && v.k != JVal::Arr && v.k != JVal::Obj) c_scalar_root.add();
  if (v.k == JVal::Arr && !v.a.empty() && (v.a.back().k == JVal::Arr || v.a.back().k == JVal::Obj) && v.a.back().a.empty() && v.a.back().o.empty()) c_empty_last.add();
  if (v.k == JVal::Obj && !v.o.empty() && (v.o.back().second.k == JVal::Arr || v.o.back().second.k == JVal::Obj) && v.o.back().second.a.empty() &&
      v.o.back().second.o.empty())
    c_empty_last.add();
  for (auto& e : v.a) mark_shapes(e, false);
  for (auto& m : v.o) mark_shapes(m.second, false);
}

static void api_case(const JVal& model, vf::Rng& r, BufState bs) {
  c_api.add();
  mark_shapes(model);
  if (jm::has_dup_keys(model)) c_dup.add();
  vf::distinct(jm::hash_val(model));
  std::string w = jm::describe(model, 2000);
  vf::witness(w);
  su::PoolDoc helper;
  if (r.coin()) {
    su::PoolDoc d;
    su::build_node(static_cast<su::PoolNode&>(d), model, d.GetAllocator(), &r, su::kStrMixed);
    WriteBuffer wb = make_buffer(bs, r, &helper);
    judge_doc(d, model, wb, "api-built(pool)");
  } else {
    su::SimpleDoc d;
    su::build_node(static_cast<su::SimpleNode&>(d), model, d.GetAllocator(), &r, su::kStrMixed);
    WriteBuffer wb = make_buffer(bs, r, &helper);
    judge_doc(d, model, wb, "api-built(malloc)");
  }
}

// a value of every kind reached by Serialize with every remaining capacity 0..48 of a caller-sized write buffer (behind
// enough 20-digit numbers to outgrow the serializer's up-front estimate): every append path (the padded 8-byte store of
// null/true/false, brackets, separators, strings, numbers) has to reserve what it writes
static vf::Counter c_kindcap("value-of-every-kind-at-every-remaining-capacity");
static void value_at_remaining_capacity_case(uint64_t i, vf::Rng& r) {
  size_t m = 30 + (size_t)(i % 6) * 9;
  su::PoolDoc d;
  d.SetArray();
  std::string prefix = "[";
  for (size_t k = 0; k < m; k++) {
    uint64_t x = UINT64_MAX - k;
    d.PushBack(su::PoolNode(x), d.GetAllocator());
    prefix += std::to_string(x) + ",";
  }
  static const char* tails[] = {"null", "true", "false", "[null]", "[true,false]", "{\"a\":null}", "[[false]]", "\"ab\"", "[]", "{}", "7", "[null,null,null,null]", "{\"k\":[true]}"};
  for (const char* tl : tails) {
    jm::RefResult rr = jm::ref_parse(tl);
    su::PoolNode node;
    su::build_node(node, rr.v, d.GetAllocator());
    d.PushBack(std::move(node), d.GetAllocator());
    std::string expect = prefix + tl + "]";
    for (size_t rem = 0; rem <= 48; rem++) {
      c_kindcap.add();
      vf::eval();
      WriteBuffer wb(prefix.size() + rem);
      vf::note("Serialize([numbers..., value]) into a sized WriteBuffer");
      SonicError e = d.Serialize(wb);
      std::string out(wb.ToString(), wb.Size());
      if (e != kErrorNone || out != expect) {
        vf::violation("value-at-remaining-capacity", std::string("tail ") + tl + ", remaining " + std::to_string(rem) + ": ..." + vf::printable(out.substr(out.size() > 40 ? out.size() - 40 : 0)));
        return;
      }
    }
    d.PopBack();
  }
  vf::witness("[" + std::to_string(m) + " x 20-digit number, value of every kind] into WriteBuffer(prefix+0..48)");
  vf::distinct_enum(13 * 49);
  (void)r;
}

int main(int argc, char** argv) {
  std::vector<vf::Stream> S;

  S.push_back({"parsed_documents", 6000, 600000, [](uint64_t, vf::Rng& r) {
                 jm::GenOpts go;
                 go.max_depth = 5;
                 go.dup_keys = r.below(5) == 0;
                 JVal v = jm::gen_document(r, go);
                 jm::RenderOpts ro;
                 std::string text = jm::render(v, r, ro);
                 jm::RefResult ref = jm::ref_parse(text);
                 if (!ref.ok) return;
                 vf::witness(text);
                 vf::distinct(vf::hash_str(text));
                 c_parsed.add();
                 mark_shapes(ref.v);
                 if (jm::has_dup_keys(ref.v)) c_dup.add();
                 su::PoolDoc d;
                 d.Parse(text.data(), text.size());
                 if (d.HasParseError()) return;  // C01's subject
                 su::PoolDoc helper;
                 WriteBuffer wb = make_buffer((BufState)r.below(5), r, &helper);
                 judge_doc(d, ref.v, wb, "parsed");
               }});

  S.push_back({"api_built_documents", 6000, 600000, [](uint64_t, vf::Rng& r) {
                 jm::GenOpts go;
                 go.max_depth = 4;
                 go.dup_keys = r.below(5) == 0;
                 JVal v = jm::gen_document(r, go);
                 concretise(v);
                 api_case(v, r, (BufState)r.below(5));
               }});

  // every string byte content: strings of all byte values / lengths as values and keys, all ownership kinds
  S.push_back({"string_bytes", 3000, 300000, [](uint64_t i, vf::Rng& r) {
                 size_t n = i % 3 == 0 ? r.range(0, 300) : r.range(0, 40);
                 std::string s(n, 0);
                 int mode = (int)r.below(5);
                 for (auto& c : s) c = mode == 0 ? (char)r.below(256) : mode == 1 ? (char)r.below(0x20) : mode == 2 ? "\"\\/"[r.below(3)] : mode == 3 ? (char)r.range(0x80, 0xff) : (char)r.range(0x20, 0x7e);
                 JVal v = JVal::obj();
                 v.o.emplace_back(s, JVal::str(s));
                 v.o.emplace_back(s + "2", JVal::arr());
                 v.o.back().second.a.push_back(JVal::str(s));
                 v.o.back().second.a.push_back(JVal::str(""));
                 if (r.below(4) == 0) v = JVal::str(s);
                 api_case(v, r, (BufState)r.below(5));
               }});

  // numbers: every kind at the extremes
  S.push_back({"number_extremes", 2000, 200000, [](uint64_t, vf::Rng& r) {
                 JVal v = JVal::arr();
                 size_t n = r.range(1, 20);
                 for (size_t k = 0; k < n; k++) {
                   switch (r.below(8)) {
                     case 0: v.a.push_back(JVal::uint(r.next())); break;
                     case 1: v.a.push_back(JVal::sint((int64_t)r.next())); break;
                     case 2: {
                       if (r.coin()) { v.a.push_back(JVal::uint(r.coin() ? UINT64_MAX : (uint64_t)INT64_MAX + r.below(3))); break; }
                       uint64_t p = 1;  // powers of ten and two and their neighbours, as unsigned integers
                       for (unsigned k = (unsigned)r.below(20); k; k--) p *= 10;
                       if (r.below(3) == 0) p = 1ULL << r.below(64);
                       v.a.push_back(JVal::uint(p + r.below(3) - 1));
                       break;
                     }
                     case 3: {
                       if (r.coin()) { v.a.push_back(JVal::sint(r.coin() ? INT64_MIN : -(int64_t)r.below(3))); break; }
                       int64_t p = 1;  // ... and as negative integers
                       for (unsigned k = (unsigned)r.below(19); k; k--) p *= 10;
                       v.a.push_back(JVal::sint(-p - (int64_t)r.below(3) + 1 < 0 ? -p - (int64_t)r.below(3) + 1 : -p));
                       break;
                     }
                     case 4: {
                       uint64_t b;
                       do b = r.next(); while (((b >> 52) & 0x7ff) == 0x7ff);
                       v.a.push_back(JVal::dbl_bits(b));
                       break;
                     }
                     case 5: v.a.push_back(JVal::dbl(r.coin() ? 0.0 : -0.0)); break;
                     case 6: {
                       static const double ex[] = {DBL_MAX, -DBL_MAX, DBL_MIN, 4.9e-324, 1e21, 1e-6, 9007199254740992.0, 1e23, 0.1, 123456789012345680.0};
                       v.a.push_back(JVal::dbl(ex[r.below(10)]));
                       break;
                     }
                     default:
                       if (r.coin()) v.a.push_back(JVal::dbl((double)(int64_t)r.below(1000000)));
                       else if (r.coin()) v.a.push_back(JVal::dbl(ldexp(r.coin() ? 1.0 : -1.0, (int)r.range(0, 2045) - 1022)));  // exact powers of two
                       else { char b[32]; snprintf(b, sizeof b, "1e%d", (int)r.range(0, 630) - 322); v.a.push_back(JVal::dbl(strtod(b, nullptr))); }
                       break;
                   }
                 }
                 if (r.below(6) == 0) v = v.a[0];
                 api_case(v, r, (BufState)r.below(5));
               }});

  // non-finite doubles anywhere in the document
  S.push_back({"non_finite", 1500, 100000, [](uint64_t, vf::Rng& r) {
                 c_nonfinite.add();
                 vf::eval();
                 jm::GenOpts go;
                 go.max_depth = 3;
                 JVal v = jm::gen_document(r, go);
                 concretise(v);
                 su::PoolDoc d;
                 su::build_node(static_cast<su::PoolNode&>(d), v, d.GetAllocator(), &r, su::kStrCopy);
                 static const double bad[] = {INFINITY, -INFINITY, NAN};
                 double x = bad[r.below(3)];
                 if (r.below(8) == 0) {
                   uint64_t nb = 0x7ff0000000000000ULL | (r.next() & 0x000fffffffffffffULL) | (r.next() << 63);
                   memcpy(&x, &nb, 8);
                 }
                 // put it somewhere: root, array element, or object value
                 su::PoolNode bn;
                 bn.SetDouble(x);
                 if (d.IsArray()) d.PushBack(std::move(bn), d.GetAllocator());
                 else if (d.IsObject()) d.AddMember("nonfinite", std::move(bn), d.GetAllocator());
                 else d.SetDouble(x);
                 if (r.coin() && d.IsContainer()) {  // bury it one level deeper
                   su::PoolDoc outer;
                   outer.SetArray();
                   outer.PushBack(su::PoolNode((uint64_t)1), outer.GetAllocator());
                   su::PoolNode copy(d, outer.GetAllocator(), true);
                   outer.PushBack(std::move(copy), outer.GetAllocator());
                   outer.PushBack(su::PoolNode("tail", 4), outer.GetAllocator());
                   WriteBuffer wb;
                   SonicError e = outer.Serialize(wb);
                   if (e != kSerErrorInfinity) vf::violation("non-finite:wrong-result", "nested: Serialize returned " + std::to_string((int)e));
                   if (outer.Dump() != "") vf::violation("non-finite:dump-not-empty", "nested: " + vf::printable(outer.Dump(), 100));
                   return;
                 }
                 WriteBuffer wb;
                 SonicError e = d.Serialize(wb);
                 if (e != kSerErrorInfinity) vf::violation("non-finite:wrong-result", "Serialize returned " + std::to_string((int)e) + " for a document holding a non-finite double");
                 if (d.Dump() != "") vf::violation("non-finite:dump-not-empty", vf::printable(d.Dump(), 100));
               }});

  // fill-level sweep: the write cursor passes every residue relative to the buffer capacity
  S.push_back({"value_of_every_kind_at_every_remaining_capacity", 6, 6, value_at_remaining_capacity_case, false});
  S.push_back({"fill_level_sweep", 9 * 7 * 6, 9 * 7 * 6, [](uint64_t i, vf::Rng& r) {
                 static const char* elem_names[] = {"null", "false", "true", "emptystr", "str1", "zero", "dbl", "emptyarr", "emptyobj"};
                 int el = (int)(i % 9);
                 size_t shift = (i / 9) % 7;
                 int tail = (int)(i / 63);
                 auto make_elem = [&](int k) -> JVal {
                   switch (k) {
                     case 0: return JVal::null();
                     case 1: return JVal::boolean(false);
                     case 2: return JVal::boolean(true);
                     case 3: return JVal::str("");
                     case 4: return JVal::str("a");
                     case 5: return JVal::uint(0);
                     case 6: return JVal::dbl(1.5);
                     case 7: return JVal::arr();
                     default: return JVal::obj();
                   }
                 };
                 (void)elem_names;
                 size_t maxn = vf::args().thorough ? 3000 : 460;
                 for (size_t n = 0; n <= maxn; n++) {
                   if (n > 120 && !vf::args().thorough && (n % 3) && !(n >= 395 && n <= 415) && !(n >= 195 && n <= 215)) continue;
                   c_fill.add();
                   vf::distinct_enum(1);
                   JVal inner = JVal::arr();
                   if (shift) inner.a.push_back(JVal::str(std::string(shift - 1, 'x')));
                   for (size_t k = 0; k < n; k++) inner.a.push_back(make_elem(el));
                   JVal root = JVal::arr();
                   root.a.push_back(std::move(inner));
                   switch (tail) {
                     case 0: break;
                     case 1: { JVal t = JVal::arr(); t.a.push_back(JVal::arr()); root.a.push_back(t); break; }          // [[]]
                     case 2: { JVal t = JVal::arr(); JVal u = JVal::arr(); u.a.push_back(JVal::obj()); t.a.push_back(u); root.a.push_back(t); break; }  // [[{}]]
                     case 3: root.a.push_back(JVal::null()); break;
                     case 4: { JVal t = JVal::obj(); t.o.emplace_back("k", JVal::arr()); root.a.push_back(t); break; }
                     default: { JVal t = JVal::arr(); t.a.push_back(JVal::boolean(true)); JVal u = JVal::arr(); u.a.push_back(t); root.a.push_back(u); break; }
                   }
                   su::PoolDoc d;
                   su::build_node(static_cast<su::PoolNode&>(d), root, d.GetAllocator(), nullptr, su::kStrCopy);
                   WriteBuffer wb;  // fresh 256-byte buffer: growth by doubling
                   if ((n & 15) == 7) wb = WriteBuffer(r.range(0, 300));
                   judge_doc(d, root, wb, "fill-sweep");
                 }
               }, false});

  // long strings made of bytes that expand 6x, after some output is already in the buffer
  S.push_back({"expanding_strings_after_prefix", 1500, 100000, [](uint64_t, vf::Rng& r) {
                 JVal v = JVal::arr();
                 v.a.push_back(JVal::str(std::string(r.range(0, 600), 'x')));
                 size_t n = r.range(0, 1200);
                 std::string s(n, 0);
                 unsigned dens = (unsigned)r.pick(std::vector<unsigned>{100, 100, 97, 90, 50});  // percent of 6x-expanding bytes
                 for (auto& c : s) c = r.below(100) < dens ? (char)(1 + r.below(7)) : 'y';
                 v.a.push_back(JVal::str(s));
                 if (r.coin()) v.a.push_back(JVal::str(std::string(r.range(0, 100), '\x1f')));
                 api_case(v, r, (BufState)r.below(5));
               }});
  return vf::run(argc, argv, S);
}
