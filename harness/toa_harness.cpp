// toa_harness.cpp -- C07 (F64toa: shortest round-tripping decimal) and C08 (U64toa/I64toa: exact decimal).
//   --prop C07 | C08
// Oracles: glibc strtod (round trip), libstdc++ std::to_chars (shortest/closest digits), a first-principles GMP/strtod
// check of minimality and closeness on a subset, snprintf for integers, the library's own parser for the kind;
// ASan on exact 33-byte heap blocks for buffer confinement; GMP audit of the 617 Pow10CeilSig entries.
#include <gmp.h>

#include <cfloat>
#include <charconv>
#include <cmath>

#include "common/jmodel.h"
#include "common/sonic_util.h"
#include "common/vf.h"
#include "sonic/internal/ftoa.h"
#include "sonic/internal/itoa.h"

using namespace sonic_json;
static std::string g_prop = "C07";

static std::string bits_hex(uint64_t u) {
  char b[32];
  snprintf(b, sizeof b, "%016llx", (unsigned long long)u);
  return b;
}
static double from_bits(uint64_t b) {
  double d;
  memcpy(&d, &b, 8);
  return d;
}
static uint64_t to_bits(double d) {
  uint64_t b;
  memcpy(&b, &d, 8);
  return b;
}

// (digits without leading/trailing zeros, decimal exponent E such that value = 0.DIGITS * 10^E)
struct Norm {
  bool neg = false;
  std::string dig;
  long e = 0;
  bool ok = false;
  bool has_frac_or_exp = false;
};
static Norm normalise(const char* s, size_t n) {
  Norm r;
  size_t i = 0;
  if (i < n && s[i] == '-') { r.neg = true; i++; }
  std::string m;
  long point = -1;
  while (i < n && (isdigit((unsigned char)s[i]) || s[i] == '.')) {
    if (s[i] == '.') { point = (long)m.size(); r.has_frac_or_exp = true; } else m += s[i];
    i++;
  }
  if (point < 0) point = (long)m.size();
  long ex = 0;
  if (i < n && (s[i] == 'e' || s[i] == 'E')) {
    r.has_frac_or_exp = true;
    i++;
    bool en = false;
    if (i < n && (s[i] == '+' || s[i] == '-')) { en = s[i] == '-'; i++; }
    if (i >= n) return r;
    while (i < n && isdigit((unsigned char)s[i])) { ex = ex * 10 + (s[i] - '0'); i++; }
    if (en) ex = -ex;
  }
  if (i != n || m.empty()) return r;
  size_t lead = 0;
  while (lead < m.size() && m[lead] == '0') lead++;
  m.erase(0, lead);
  point -= (long)lead;
  while (!m.empty() && m.back() == '0') m.pop_back();
  r.dig = m;
  r.e = m.empty() ? 0 : point + ex;
  r.ok = true;
  return r;
}

static vf::Counter c_f64("doubles-printed"), c_sub("class:subnormal"), c_int("class:integer-valued(fast path)"), c_sci("format:scientific"),
    c_fix("format:fixed"), c_gmp("first-principles-checks"), c_parse("library-parse-back-checks"), c_len_max("max-length-seen");
static size_t g_maxlen = 0;

// exact decimal digits of |d| : value = 0.DIG * 10^E
static void exact_digits(double d, std::string& dig, long& e) {
  char buf[1200];
  snprintf(buf, sizeof buf, "%.1100e", fabs(d));  // glibc prints the exact expansion (at most 767 significant digits)
  Norm n = normalise(buf, strlen(buf));
  dig = n.dig;
  e = n.e;
}
static double value_of(const std::string& dig, long e, bool neg) {
  std::string t = (neg ? "-0." : "0.") + dig + "e" + std::to_string(e);
  return strtod(t.c_str(), nullptr);
}
// +1 in the last place of a digit string (may grow by one digit: 999 -> 1000)
static std::string inc_digits(std::string s, long& e) {
  int i = (int)s.size() - 1;
  while (i >= 0 && s[i] == '9') { s[i] = '0'; i--; }
  if (i < 0) { s.insert(s.begin(), '1'); e += 1; } else s[i]++;
  return s;
}

// first-principles: no shorter decimal round-trips, and the printed one is the closest n-digit candidate that does
static void first_principles(double d, const Norm& got) {
  c_gmp.add();
  std::string X;
  long E;
  exact_digits(d, X, E);
  size_t n = got.dig.size();
  bool neg = std::signbit(d);
  if (got.e != E && !(got.e == E + 1)) {
    // the printed decimal may carry into the next decade only when rounding up 99..9
  }
  // (1) minimality
  if (n > 1) {
    std::string fl = X.substr(0, std::min(n - 1, X.size()));
    while (fl.size() < n - 1) fl += '0';
    long e1 = E;
    if (value_of(fl, e1, neg) == d) {
      vf::violation("not-shortest", "double " + bits_hex(to_bits(d)) + " printed with " + std::to_string(n) + " digits but 0." + fl + "e" +
                                        std::to_string(e1) + " (" + std::to_string(n - 1) + " digits) reads back to it");
      return;
    }
    long e2 = E;
    std::string ce = inc_digits(fl, e2);
    if (value_of(ce, e2, neg) == d) {
      vf::violation("not-shortest", "double " + bits_hex(to_bits(d)) + " printed with " + std::to_string(n) + " digits but 0." + ce + "e" +
                                        std::to_string(e2) + " (" + std::to_string(n - 1) + " digits) reads back to it");
      return;
    }
  }
  // (2) closeness among n-digit candidates floor_n / ceil_n of the exact expansion
  std::string fl = X.substr(0, std::min(n, X.size()));
  while (fl.size() < n) fl += '0';
  long ef = E, ec = E;
  std::string ce = inc_digits(fl, ec);
  bool fl_rt = value_of(fl, ef, neg) == d, ce_rt = value_of(ce, ec, neg) == d;
  // distances, scaled: compare (X - fl*10^k) with (ce*10^k - X) using GMP
  mpz_t x, a, b, da, db;
  mpz_inits(x, a, b, da, db, NULL);
  size_t L = std::max(X.size(), n + 1);
  std::string xs = X + std::string(L - X.size(), '0');
  std::string as = fl + std::string(L - n, '0');
  mpz_set_str(x, xs.c_str(), 10);
  mpz_set_str(a, as.c_str(), 10);
  // ceil = floor + 10^(L-n)
  mpz_ui_pow_ui(b, 10, L - n);
  mpz_add(b, a, b);
  mpz_sub(da, x, a);
  mpz_sub(db, b, x);
  int cmp = mpz_cmp(da, db);  // <0: floor closer
  mpz_clears(x, a, b, da, db, NULL);
  // normalised forms of the two candidates
  auto norm_of = [](std::string dg, long e) {
    while (!dg.empty() && dg.back() == '0') dg.pop_back();
    return std::make_pair(dg, e);
  };
  auto gotp = std::make_pair(got.dig, got.e);
  auto flp = norm_of(fl, ef), cep = norm_of(ce, ec);
  bool is_fl = gotp == flp, is_ce = gotp == cep;
  if (!is_fl && !is_ce) {
    vf::violation("not-closest", "double " + bits_hex(to_bits(d)) + " printed as 0." + got.dig + "e" + std::to_string(got.e) +
                                     " which is neither the floor nor the ceiling " + std::to_string(n) + "-digit decimal of the exact value");
    return;
  }
  if (fl_rt && ce_rt) {
    if ((cmp < 0 && !is_fl) || (cmp > 0 && !is_ce))
      vf::violation("not-closest", "double " + bits_hex(to_bits(d)) + ": both " + std::to_string(n) + "-digit neighbours round-trip but the farther one was printed");
  }
}

static char* g_buf33 = nullptr;

static void judge_double(double d, vf::Rng& r, bool heavy) {
  c_f64.add();
  vf::eval();
  uint64_t bits = to_bits(d);
  vf::witness(&bits, 8);
  // exact 33-byte block, fresh for every call under ASan builds (cheap: ASan quarantines)
#if VF_SANITIZER
  char* out = (char*)malloc(32);  // the buffer size the unit tests hand to the formatters
#else
  if (!g_buf33) g_buf33 = (char*)malloc(64);
  char* out = g_buf33;
#endif
  int n = internal::F64toa(out, d);
  std::string text(out, n > 0 && n <= 33 ? n : 0);
#if VF_SANITIZER
  free(out);
#endif
  if (n <= 0 || n > 32) {
    vf::violation("bad-length", "F64toa(" + bits_hex(bits) + ") returned " + std::to_string(n));
    return;
  }
  if ((size_t)n > g_maxlen) g_maxlen = n;
  {
    std::string wtxt = "double bits " + bits_hex(bits) + " -> \"" + text + "\"";
    vf::witness(wtxt);
  }
  if (((bits >> 52) & 0x7ff) == 0) c_sub.add();
  // grammar: a JSON number containing a fraction or an exponent
  size_t i = 0;
  bool is_int;
  if (!jm::ref_number_span((const unsigned char*)text.data(), text.size(), i, is_int) || i != text.size()) {
    vf::violation("not-json-number", "F64toa(" + bits_hex(bits) + ") = \"" + vf::printable(text) + "\"");
    return;
  }
  if (is_int) {
    vf::violation("prints-as-integer", "F64toa(" + bits_hex(bits) + ") = \"" + text + "\" has neither fraction nor exponent");
    return;
  }
  if (text.find_first_of("eE") != std::string::npos) c_sci.add(); else c_fix.add();
  // round trip by a correctly rounding reader
  double back = strtod(text.c_str(), nullptr);
  if (to_bits(back) != bits) {
    vf::violation("roundtrip-strtod", "F64toa(" + bits_hex(bits) + ") = \"" + text + "\" reads back as " + bits_hex(to_bits(back)));
    return;
  }
  // shortest + closest: compare digits/exponent with std::to_chars
  char ref[64];
  auto res = std::to_chars(ref, ref + sizeof ref, d, std::chars_format::scientific);
  Norm a = normalise(text.data(), text.size()), b = normalise(ref, res.ptr - ref);
  if (!a.ok || !b.ok) {
    vf::violation("harness:normalise", text + " / " + std::string(ref, res.ptr - ref));
    return;
  }
  if (a.neg != b.neg || a.dig != b.dig || (a.e != b.e && !a.dig.empty())) {
    vf::violation(a.dig.size() != b.dig.size() ? "not-shortest-vs-to_chars" : "not-closest-vs-to_chars",
                  "F64toa(" + bits_hex(bits) + ") = \"" + text + "\" but the shortest round-trip decimal is \"" + std::string(ref, res.ptr - ref) + "\"");
    return;
  }
  if (heavy || r.below(64) == 0) first_principles(d, a);
  if (heavy || r.below(16) == 0) {
    // the library itself must read the text back as a double with the same bits
    c_parse.add();
    std::string doc = "[" + text + "]";
    su::PoolDoc pd;
    pd.Parse(doc.data(), doc.size());
    if (pd.HasParseError() || !pd.IsArray() || pd.Size() != 1 || !pd[0].IsDouble() || to_bits(pd[0].GetDouble()) != bits)
      vf::violation("roundtrip-sonic-parse", "F64toa(" + bits_hex(bits) + ") = \"" + text + "\" does not parse back to the same double");
    // and through the public serializer: SetDouble -> Dump
    su::PoolDoc q;
    q.SetDouble(d);
    if (q.Dump() != text) vf::violation("dump-differs-from-f64toa", "Dump() = " + q.Dump() + " F64toa = " + text);
  }
}

static void audit_pow10ceil() {
  mpz_t n, p, q, one;
  mpz_inits(n, p, q, one, NULL);
  for (int k = -292; k <= 324; k++) {
    vf::eval();
    // r = floor(log2 10^k) - 127 ; g = ceil(10^k / 2^r)
    auto g = internal::Pow10CeilSig(k);
    if (k >= 0) {
      mpz_ui_pow_ui(n, 10, k);
      long fl = (long)mpz_sizeinbase(n, 2) - 1;
      long rr = fl - 127;
      if (rr >= 0) mpz_cdiv_q_2exp(q, n, rr); else mpz_mul_2exp(q, n, -rr);
    } else {
      // 10^k = 1/10^-k ; floor(log2) = -bitlen(10^-k) (10^-k is not a power of two) ; r = fl - 127 (negative)
      mpz_ui_pow_ui(p, 10, -k);
      long fl = -(long)mpz_sizeinbase(p, 2);
      long rr = fl - 127;
      mpz_set_ui(one, 1);
      mpz_mul_2exp(one, one, -rr);
      mpz_cdiv_q(q, one, p);
    }
    uint64_t lo = mpz_get_ui(q);
    mpz_fdiv_q_2exp(n, q, 64);
    uint64_t hi = mpz_get_ui(n);
    if (mpz_sizeinbase(q, 2) != 128 || g.hi != hi || g.lo != lo)
      vf::violation("table-audit:Pow10CeilSig", "entry k=" + std::to_string(k) + " is {" + bits_hex(g.hi) + "," + bits_hex(g.lo) + "} expected {" +
                                                    bits_hex(hi) + "," + bits_hex(lo) + "}");
    vf::count("audit:pow10ceil-entries");
  }
  vf::distinct_enum(617);
  mpz_clears(n, p, q, one, NULL);
}

// ---------------------------------------------------------------- C08
static vf::Counter c_u("u64-printed"), c_i("i64-printed"), c_node("integer-node-roundtrips");
static void judge_u64(uint64_t v, bool roundtrip) {
  c_u.add();
  vf::eval();
#if VF_SANITIZER
  char* out = (char*)malloc(32);  // the buffer size the unit tests hand to the formatters
#else
  if (!g_buf33) g_buf33 = (char*)malloc(64);
  char* out = g_buf33;
#endif
  char* e = internal::U64toa(out, v);
  size_t n = e - out;
  char ref[32];
  int m = snprintf(ref, sizeof ref, "%llu", (unsigned long long)v);
  bool bad = n != (size_t)m || memcmp(out, ref, m) != 0;
  std::string text(out, n <= 33 ? n : 0);
#if VF_SANITIZER
  free(out);
#endif
  if ((c_u.n & 0xfff) == 1 || bad) vf::witness(std::string("U64toa(") + ref + ") -> \"" + text + "\"");
  if (bad) {
    vf::violation("u64toa-mismatch:" + std::to_string(m) + "digits", "U64toa(" + std::string(ref) + ") = \"" + vf::printable(text) + "\"");
    return;
  }
  if (roundtrip) {
    c_node.add();
    su::PoolDoc d;
    d.SetUint64(v);
    std::string dump = d.Dump();
    su::PoolDoc b;
    b.Parse(dump.data(), dump.size());
    if (dump != ref || b.HasParseError() || !b.IsUint64() || b.GetUint64() != v)
      vf::violation("u64-node-roundtrip", "SetUint64(" + std::string(ref) + ") dumps as " + dump + " and does not read back as the same uint64");
  }
}
static void judge_i64(int64_t v, bool roundtrip) {
  c_i.add();
  vf::eval();
#if VF_SANITIZER
  char* out = (char*)malloc(32);  // the buffer size the unit tests hand to the formatters
#else
  if (!g_buf33) g_buf33 = (char*)malloc(64);
  char* out = g_buf33;
#endif
  char* e = internal::I64toa(out, v);
  size_t n = e - out;
  char ref[32];
  int m = snprintf(ref, sizeof ref, "%lld", (long long)v);
  bool bad = n != (size_t)m || memcmp(out, ref, m) != 0;
  std::string text(out, n <= 33 ? n : 0);
#if VF_SANITIZER
  free(out);
#endif
  if ((c_i.n & 0xfff) == 1 || bad) vf::witness(std::string("I64toa(") + ref + ") -> \"" + text + "\"");
  if (bad) {
    vf::violation("i64toa-mismatch:" + std::to_string(m) + "chars", "I64toa(" + std::string(ref) + ") = \"" + vf::printable(text) + "\"");
    return;
  }
  if (roundtrip) {
    c_node.add();
    su::PoolDoc d;
    d.SetInt64(v);
    std::string dump = d.Dump();
    su::PoolDoc b;
    b.Parse(dump.data(), dump.size());
    bool ok = dump == ref && !b.HasParseError() && b.IsInt64() && b.GetInt64() == v && (v < 0 ? !b.IsUint64() : b.IsUint64());
    if (!ok) vf::violation("i64-node-roundtrip", "SetInt64(" + std::string(ref) + ") dumps as " + dump + " and does not read back as the same integer kind");
  }
}

// ---- placement: the digits a number prints as must not depend on where the output buffer lies.  Every value of a
// family covering all formatting paths is written at each offset of a window across an internal 4 KiB page boundary of
// a three-page block (both sides accessible) and compared with the text obtained at the start of the block.
static vf::Counter c_place("placement:number-written-at-every-offset-across-a-page-boundary");
static void placement_case(uint64_t i, vf::Rng& r) {
  static char* block = nullptr;
  if (!block && posix_memalign((void**)&block, 4096, 3 * 4096)) return;
  bool dbl = g_prop == "C07";
  for (int k = 0; k < 40; k++) {
    char ref[40], got[40];
    int rn, gn = 0;
    uint64_t u = 0;
    double d = 0;
    int kind = (int)((i + k) % 3);
    if (dbl) {
      static const double fam[] = {0.1, -0.30000000000000004, 1e21, 6e20, 123456789012345680.0, 1.7976931348623157e308, 5e-324, -2.2250738585072014e-308, 1e-7, 123456.789,
                                   9007199254740993.0, 4294967296.5, 1e100, -1.234567890123456e-100, 0.000001234567890123, 100000000.0, 1e16, 12345678.0};
      d = r.below(3) ? fam[r.below(18)] : from_bits(r.next() & 0x7fefffffffffffffULL);
      rn = internal::F64toa(block, d);
      memcpy(ref, block, rn > 0 ? rn : 0);
    } else {
      int nd = (int)r.range(1, 20);
      u = 0;
      for (int q = 0; q < nd; q++) u = u * 10 + (q == 0 ? r.range(1, 9) : r.below(10));
      if (r.below(5) == 0) u = r.pick(std::vector<uint64_t>{99999999ULL, 100000000ULL, 4294967296ULL, 9999999999999999ULL, 10000000000000000ULL, UINT64_MAX, (uint64_t)INT64_MAX + 1});
      char* e = kind == 0 ? internal::U64toa(block, u) : internal::I64toa(block, kind == 1 ? (int64_t)u : -(int64_t)(u >> 1));
      rn = (int)(e - block);
      memcpy(ref, block, rn);
    }
    for (int off = 4096 - 40; off <= 4096 + 8; off++) {
      c_place.add();
      vf::eval();
      char* out = block + off;
      memset(out, '#', 34);
      if (dbl) gn = internal::F64toa(out, d);
      else gn = (int)((kind == 0 ? internal::U64toa(out, u) : internal::I64toa(out, kind == 1 ? (int64_t)u : -(int64_t)(u >> 1))) - out);
      memcpy(got, out, gn > 0 && gn < 40 ? gn : 0);
      if (gn != rn || memcmp(got, ref, rn > 0 ? rn : 0) != 0) {
        vf::witness(std::string(ref, rn > 0 ? rn : 0));
        vf::violation("output-depends-on-buffer-placement", "value prints as \"" + std::string(ref, rn > 0 ? rn : 0) + "\" at the start of a page and as \"" +
                                                               vf::printable(std::string(got, gn > 0 && gn < 40 ? gn : 0)) + "\" at page offset " + std::to_string(off % 4096));
        return;
      }
    }
  }
  vf::distinct(vf::hash_combine(i, r.s));
}

// ---- a number reached by Serialize with every remaining capacity 0..60 of a caller-sized write buffer (behind enough
// 20-digit numbers to outgrow the serializer's up-front estimate): the reservation in front of the number formatters
// has to cover their longest output plus the separator
static vf::Counter c_numcap("number-reached-at-every-remaining-capacity");
static void number_at_remaining_capacity_case(uint64_t i, vf::Rng& r) {
  size_t m = 30 + (size_t)(i % 6) * 9;
  su::PoolDoc d;
  d.SetArray();
  std::string prefix = "[";
  for (size_t k = 0; k < m; k++) {
    uint64_t x = UINT64_MAX - k;
    d.PushBack(su::PoolNode(x), d.GetAllocator());
    prefix += std::to_string(x) + ",";
  }
  static const double dbls[] = {-0.0000012345678901234567, -1.7976931348623157e308, -2.2250738585072014e-308, 0.1, -123456789012345680000.0, 5e-324, -0.000001234567890123456};
  for (int v = 0; v < 10; v++) {
    std::string text;
    char b[40];
    if (v < 7) {
      double x = dbls[v];
      d.PushBack(su::PoolNode(x), d.GetAllocator());
      int n = internal::F64toa(b, x);
      text.assign(b, n);
    } else if (v == 7) {
      d.PushBack(su::PoolNode((uint64_t)UINT64_MAX), d.GetAllocator());
      text = "18446744073709551615";
    } else if (v == 8) {
      d.PushBack(su::PoolNode((int64_t)INT64_MIN), d.GetAllocator());
      text = "-9223372036854775808";
    } else {
      d.PushBack(su::PoolNode((int64_t)-1), d.GetAllocator());
      text = "-1";
    }
    std::string expect = prefix + text + "]";
    for (size_t rem = 0; rem <= 60; rem++) {
      c_numcap.add();
      vf::eval();
      WriteBuffer wb(prefix.size() + rem);
      vf::note("Serialize([numbers..., number]) into a sized WriteBuffer");
      SonicError e = d.Serialize(wb);
      std::string out(wb.ToString(), wb.Size());
      if (e != kErrorNone || out != expect) {
        vf::violation("number-at-remaining-capacity", "remaining " + std::to_string(rem) + ": ..." + vf::printable(out.substr(out.size() > 60 ? out.size() - 60 : 0)) + " expected ..." + text + "]");
        return;
      }
    }
    d.PopBack();
  }
  vf::witness("[" + std::to_string(m) + " x 20-digit number, number of every kind] into WriteBuffer(prefix+0..60)");
  vf::distinct_enum(10 * 61);
  (void)r;
}

int main(int argc, char** argv) {
  for (int i = 1; i + 1 < argc; i++)
    if (std::string(argv[i]) == "--prop") g_prop = argv[i + 1];
  std::vector<vf::Stream> S;
  S.push_back({"placement_across_a_page_boundary", 60, 2000, placement_case});
  S.push_back({"number_at_every_remaining_capacity", 6, 6, number_at_remaining_capacity_case, false});
  if (g_prop == "C07") {
    S.push_back({"table_audit", 1, 1, [](uint64_t, vf::Rng&) { audit_pow10ceil(); }, false});
    // all 2046 biased exponents (and 0 = subnormals) x 14 significands
    S.push_back({"every_exponent", 2047, 2047, [](uint64_t i, vf::Rng& r) {
                   uint64_t ex = i;  // 0..2046
                   uint64_t sigs[14] = {0, 1, 2, (1ULL << 52) - 1, (1ULL << 52) - 2, 1ULL << 51};
                   for (int k = 6; k < 14; k++) sigs[k] = r.next() & ((1ULL << 52) - 1);
                   for (uint64_t s : sigs) {
                     uint64_t b = (ex << 52) | s;
                     if ((b << 1) == 0) continue;
                     vf::distinct(b);
                     judge_double(from_bits(b), r, s < 3 || s >= (1ULL << 52) - 2);
                     judge_double(-from_bits(b), r, false);
                   }
                 }, false});
    S.push_back({"subnormals", 1000, 100000, [](uint64_t i, vf::Rng& r) {
                   for (int k = 0; k < 100; k++) {
                     // small significands exhaustively, then every magnitude: a random bit length first, so that
                     // 1..17-digit shortest decimals all occur (a uniform 52-bit value is almost always 16-17 digits)
                     uint64_t b = (i * 100 + k < 2000) ? i * 100 + k + 1 : (r.next() & ((1ULL << r.range(1, 52)) - 1));
                     if (!b) b = 1;
                     vf::distinct(b);
                     judge_double(from_bits(b), r, false);
                   }
                 }});
    // integer-valued doubles, below and beyond 2^53 (the fast integer path and its boundary)
    S.push_back({"integer_valued", 2000, 200000, [](uint64_t, vf::Rng& r) {
                   for (int k = 0; k < 50; k++) {
                     double d;
                     switch (r.below(5)) {
                       case 0: d = (double)r.below(1000000); break;
                       case 1: d = (double)(r.next() >> r.range(11, 40)); break;
                       case 2: d = ldexp((double)((1ULL << 52) | (r.next() & ((1ULL << 52) - 1))), (int)r.range(0, 30)); break;  // >= 2^52
                       case 3: d = ldexp(1.0, (int)r.range(0, 80)) + (r.coin() ? 0 : ldexp(1.0, (int)r.range(0, 20))); break;
                       default: d = (double)(r.next() >> 11) * (r.coin() ? 1 : 0.5); break;
                     }
                     vf::distinct(to_bits(d));
                     judge_double(r.below(4) ? d : -d, r, false);
                   }
                 }});
    // 10^k and its neighbours (+-3 ulp) for every k: every table entry, the 1e21 / 1e-6 format switches
    S.push_back({"powers_of_ten_neighbours", 633, 633, [](uint64_t i, vf::Rng& r) {
                   int k = (int)i - 324;  // -324 .. 308
                   char b[32];
                   snprintf(b, sizeof b, "1e%d", k);
                   double d = strtod(b, nullptr);
                   uint64_t bits = to_bits(d);
                   for (int o = -3; o <= 3; o++) {
                     uint64_t x = bits + o;
                     if ((int64_t)x <= 0 || ((x >> 52) & 0x7ff) == 0x7ff) continue;
                     vf::distinct(x);
                     judge_double(from_bits(x), r, true);
                   }
                 }, false});
    S.push_back({"powers_of_two_neighbours", 2098, 2098, [](uint64_t i, vf::Rng& r) {
                   int k = (int)i - 1074;
                   uint64_t bits = to_bits(ldexp(1.0, k));
                   for (int o = -2; o <= 2; o++) {
                     uint64_t x = bits + o;
                     if ((int64_t)x <= 0 || ((x >> 52) & 0x7ff) == 0x7ff) continue;
                     vf::distinct(x);
                     judge_double(from_bits(x), r, o == 0 || o == -1);
                   }
                 }, false});
    // short decimals (few significant digits) at every decimal exponent: the early-exit branches of the algorithm
    S.push_back({"short_decimals", 3000, 300000, [](uint64_t, vf::Rng& r) {
                   for (int k = 0; k < 40; k++) {
                     char b[64];
                     snprintf(b, sizeof b, "%llue%d", (unsigned long long)r.below(r.coin() ? 1000 : 100000000ULL) + 1, (int)r.range(0, 640) - 330);
                     double d = strtod(b, nullptr);
                     if (!std::isfinite(d) || d == 0) continue;
                     vf::distinct(to_bits(d));
                     judge_double(d, r, false);
                   }
                 }});
    S.push_back({"random_floats_widened", 4000, 400000, [](uint64_t, vf::Rng& r) {
                   for (int k = 0; k < 100; k++) {
                     uint32_t fb = (uint32_t)r.next();
                     float f;
                     memcpy(&f, &fb, 4);
                     if (!std::isfinite(f)) continue;
                     vf::distinct(fb);
                     judge_double((double)f, r, false);
                   }
                 }});
    S.push_back({"random_doubles", 8000, 4000000, [](uint64_t, vf::Rng& r) {
                   for (int k = 0; k < 100; k++) {
                     uint64_t b = r.next();
                     if (((b >> 52) & 0x7ff) == 0x7ff) continue;
                     vf::distinct(b);
                     judge_double(from_bits(b), r, false);
                   }
                 }});
    // every single-precision value (thorough): 65536 cases x 65536 floats
    S.push_back({"all_float32", 0, 65536, [](uint64_t i, vf::Rng& r) {
#if VF_SANITIZER
                   const uint32_t step = 61;  // the ASan build samples the float space; the production build enumerates it
#else
                   const uint32_t step = 1;
#endif
                   for (uint32_t lo = (uint32_t)(i % step); lo < 65536; lo += step) {
                     uint32_t fb = ((uint32_t)i << 16) | lo;
                     float f;
                     memcpy(&f, &fb, 4);
                     if (!std::isfinite(f) || f == 0) continue;
                     judge_double((double)f, r, false);
                   }
                   vf::distinct_enum(65536 / step);
                 }, false});
    S.push_back({"zero_and_nonfinite", 1, 1, [](uint64_t, vf::Rng& r) {
                   char out[40];
                   int n = internal::F64toa(out, 0.0);
                   if (std::string(out, n) != "0.0") vf::violation("zero", "F64toa(0.0) = " + std::string(out, n));
                   n = internal::F64toa(out, -0.0);
                   if (std::string(out, n) != "-0.0") vf::violation("zero", "F64toa(-0.0) = " + std::string(out, n));
                   su::PoolDoc d;
                   d.SetDouble(-0.0);
                   std::string t = d.Dump();
                   su::PoolDoc b;
                   b.Parse(t.data(), t.size());
                   if (b.HasParseError() || !b.IsDouble() || to_bits(b.GetDouble()) != to_bits(-0.0)) vf::violation("zero", "-0.0 does not survive Dump/Parse: " + t);
                   for (double x : {INFINITY, -INFINITY, NAN}) {
                     if (internal::F64toa(out, x) > 0) vf::violation("nonfinite", "F64toa(non-finite) produced text");
                   }
                   vf::eval(5);
                   vf::distinct_enum(5);
                   (void)r;
                 }, false});
  } else {
    // C08: families of the vectorised digit splitter
    S.push_back({"below_1e8_stride", 1000, 10000, [](uint64_t i, vf::Rng& r) {
                   uint64_t per = vf::args().thorough ? 10000 : 1031;  // thorough: every value < 10^8
                   uint64_t stride = vf::args().thorough ? 1 : 97;
                   for (uint64_t k = 0; k < per; k++) {
                     uint64_t x = vf::args().thorough ? i * 10000 + k : (i * 1031 + k) * stride + r.below(stride);
                     if (x >= 100000000ULL) break;
                     judge_u64(x, (k & 255) == 0);
                     judge_u64(100000000ULL + x, false);                       // 9 digits: Utoa_8 low lane
                     judge_u64(10000000000000000ULL + x, false);               // 17 digits: Utoa_16 low lane
                     judge_u64(10000000000000000ULL + x * 100000000ULL, false);  // 17+ digits: Utoa_16 high lane
                     judge_u64(x * 100000000ULL + (99999999ULL - x), false);   // 9..16 digits: both 8-digit groups
                     judge_i64(-(int64_t)x, (k & 255) == 1);
                   }
                   vf::distinct_enum(per * 5);
                 }, false});
    S.push_back({"digit_count_boundaries", 1, 1, [](uint64_t, vf::Rng&) {
                   uint64_t p = 1;
                   for (int k = 0; k <= 19; k++) {
                     for (int o = -2; o <= 2; o++) {
                       uint64_t x = p + o;
                       judge_u64(x, true);
                       if (x <= (uint64_t)INT64_MAX) {
                         judge_i64((int64_t)x, true);
                         judge_i64(-(int64_t)x, true);
                       }
                     }
                     if (k < 19) p *= 10;
                   }
                   for (int k = 0; k < 64; k++)
                     for (int o = -1; o <= 1; o++) {
                       uint64_t x = (1ULL << k) + o;
                       judge_u64(x, true);
                       judge_i64((int64_t)x, true);
                     }
                   judge_u64(UINT64_MAX, true);
                   judge_u64(0, true);
                   judge_i64(INT64_MIN, true);
                   judge_i64(INT64_MAX, true);
                   judge_i64(INT64_MIN + 1, true);
                   judge_i64(-1, true);
                   vf::distinct_enum(20 * 5 + 64 * 3 + 6);
                 }, false});
    S.push_back({"random_u64_i64", 10000, 2000000, [](uint64_t, vf::Rng& r) {
                   for (int k = 0; k < 100; k++) {
                     uint64_t x = r.next() >> r.below(64);
                     vf::distinct(x);
                     judge_u64(x, k == 0);
                     judge_i64((int64_t)r.next() >> r.below(63), k == 1);
                   }
                 }});
    // arrays of many 15..20-digit integers through Serialize: number nodes reached with little buffer capacity left, so
    // that the buffer grows (and may move) right before digits are written
    S.push_back({"arrays_of_long_integers_serialised", 1500, 100000, [](uint64_t, vf::Rng& r) {
                   size_t n = r.range(1, 120);
                   su::PoolDoc d;
                   d.SetArray();
                   std::string expect = "[";
                   for (size_t k = 0; k < n; k++) {
                     char b[32];
                     if (r.coin()) {
                       uint64_t x = r.next() | (r.coin() ? 0x8000000000000000ULL : 0x0100000000000000ULL);
                       d.PushBack(su::PoolNode(x), d.GetAllocator());
                       snprintf(b, sizeof b, "%llu", (unsigned long long)x);
                     } else {
                       int64_t x = -(int64_t)(r.next() >> 1) - 1;
                       d.PushBack(su::PoolNode(x), d.GetAllocator());
                       snprintf(b, sizeof b, "%lld", (long long)x);
                     }
                     expect += (k ? "," : "") + std::string(b);
                   }
                   expect += "]";
                   vf::witness(expect);
                   vf::eval();
                   vf::distinct(vf::hash_str(expect));
                   c_node.add();
                   WriteBuffer wb(r.coin() ? 0 : r.range(1, 300));
                   vf::note("Serialize(array of long integers)");
                   SonicError e = d.Serialize(wb);
                   std::string out(wb.ToString(), wb.Size());
                   if (e != kErrorNone || out != expect)
                     vf::violation("integer-array-serialisation", "Serialize of " + std::to_string(n) + " long integers gave " + vf::printable(out, 200) + " expected " + vf::printable(expect, 200));
                 }});
    // repeated-digit and carry patterns in each 4-digit and 8-digit group
    S.push_back({"digit_patterns", 2000, 100000, [](uint64_t, vf::Rng& r) {
                   for (int k = 0; k < 50; k++) {
                     int nd = (int)r.range(1, 20);
                     std::string s;
                     int mode = (int)r.below(4);
                     for (int j = 0; j < nd; j++) {
                       char c;
                       switch (mode) {
                         case 0: c = '9'; break;
                         case 1: c = j == 0 ? '1' : '0'; break;
                         case 2: c = (char)('0' + (j % 10)); break;
                         default: c = r.below(3) ? (r.coin() ? '0' : '9') : (char)('0' + r.below(10)); break;
                       }
                       if (j == 0 && c == '0') c = '1';
                       s += c;
                     }
                     if (nd == 20 && s > "18446744073709551615") s = "18446744073709551615";
                     uint64_t x = strtoull(s.c_str(), nullptr, 10);
                     vf::distinct(x);
                     judge_u64(x, k < 2);
                     if (x <= (uint64_t)INT64_MAX) judge_i64(-(int64_t)x, false);
                   }
                 }});
  }
  int rc = vf::run(argc, argv, S);
  return rc;
}
