// parse_harness.cpp -- C01, C02, C03: Document::Parse observed against the
// reference parser, on several allocator kinds, under ASan / heap-fill sweep.
//   --prop C01 : accept <=> RFC 8259, error code class, offset bounds, null on failure
//   --prop C02 : totality + memory safety + reuse after failure (sanitizer is the
//                main oracle; follow-up behaviour is checked against the reference)
//   --prop C03 : value read back through the accessor API == denoted value
#include <fcntl.h>
#include <pthread.h>
#include <sys/wait.h>
#include <unistd.h>

#include <cmath>
#include <fstream>
#include <sstream>

#include "common/jmodel.h"
#include "common/sonic_util.h"
#include "common/vf.h"

#if __has_include(<nlohmann/json.hpp>)
#include <nlohmann/json.hpp>
#define VF_HAVE_NLOHMANN 1
#endif
#if __has_include(<rapidjson/document.h>)
#include <rapidjson/document.h>
#define VF_HAVE_RAPIDJSON 1
#endif

using jm::JVal;
using namespace sonic_json;

static std::string g_prop = "C01";

// Oracle self-test: the reference recogniser against two independent parsers, on the sub-language where all three
// are specified to agree (text is valid UTF-8 and contains no \u surrogate escapes).  A disagreement is a defect of
// my oracle (or of the generator), reported under its own key so that it can never be mistaken for a library defect.
static bool valid_utf8(const std::string& s) {
  size_t i = 0, n = s.size();
  while (i < n) {
    unsigned char c = s[i];
    size_t len = c < 0x80 ? 1 : (c >= 0xc2 && c <= 0xdf) ? 2 : (c >= 0xe0 && c <= 0xef) ? 3 : (c >= 0xf0 && c <= 0xf4) ? 4 : 0;
    if (!len || i + len > n) return false;
    for (size_t k = 1; k < len; k++)
      if (((unsigned char)s[i + k] & 0xc0) != 0x80) return false;
    if (len == 3) {
      unsigned cp = ((c & 0x0f) << 12) | (((unsigned char)s[i + 1] & 0x3f) << 6) | ((unsigned char)s[i + 2] & 0x3f);
      if (cp < 0x800 || (cp >= 0xd800 && cp <= 0xdfff)) return false;
    }
    if (len == 4) {
      unsigned cp = ((c & 0x07) << 18) | (((unsigned char)s[i + 1] & 0x3f) << 12);
      if (cp < 0x10000 || cp > 0x10ffff) return false;
    }
    i += len;
  }
  return true;
}
static vf::Counter c_self("oracle-selftest:texts-cross-checked"), c_self_acc("oracle-selftest:accepted-by-all"), c_self_rej("oracle-selftest:rejected-by-all");
static void oracle_selftest(const std::string& text) {
  // (a NUL byte ends the input for the other two parsers: C-string heritage, outside the common sub-language)
  if (!valid_utf8(text) || text.find("\\u") != std::string::npos || text.find('\0') != std::string::npos || text.size() > 4000) return;
  jm::RefResult ref = jm::ref_parse(text);
  if (!ref.ok && ref.f.cls == jm::Fault::Infinity) return;  // the other parsers store infinity / use their own range rules
  c_self.add();
  vf::eval();
  bool any = false;
#ifdef VF_HAVE_NLOHMANN
  {
    bool ok = nlohmann::json::accept(text.begin(), text.end());
    any = true;
    if (ok != ref.ok) vf::violation("harness:oracle-disagreement:nlohmann", std::string("reference ") + (ref.ok ? "accepts" : "rejects") + ", nlohmann " + (ok ? "accepts" : "rejects") + " text=" + vf::printable(text));
  }
#endif
#ifdef VF_HAVE_RAPIDJSON
  {
    rapidjson::Document rd;
    rd.Parse<rapidjson::kParseFullPrecisionFlag>(text.data(), text.size());
    bool ok = !rd.HasParseError();
    // RapidJSON applies its own range rule to exponents (it rejects -0e999, whose value is zero): not a grammar verdict
    if (!ok && rd.GetParseError() == rapidjson::kParseErrorNumberTooBig) ok = ref.ok;
    any = true;
    // RapidJSON limits nesting by recursion only; very deep inputs are not fed here
    if (ok != ref.ok) vf::violation("harness:oracle-disagreement:rapidjson", std::string("reference ") + (ref.ok ? "accepts" : "rejects") + ", RapidJSON " + (ok ? "accepts" : "rejects") + " text=" + vf::printable(text));
  }
#endif
  if (any) { if (ref.ok) c_self_acc.add(); else c_self_rej.add(); }
}

// exact-size heap copy of the input (no terminator), so that any read past the
// caller's buffer is an ASan report
struct ExactBuf {
  char* p;
  size_t n;
  explicit ExactBuf(const std::string& s) : n(s.size()) {
    p = (char*)malloc(n ? n : 1);
    if (n) memcpy(p, s.data(), n);
  }
  ~ExactBuf() { free(p); }
  ExactBuf(const ExactBuf&) = delete;
};

static const char* code_name(int c) {
  static const char* n[] = {"None", "Eof", "InvalidChar", "Infinity", "UnEscaped", "EscapedFormat", "EscapedUnicode",
                            "InvalidUTF8", "UnknownObjKey", "ArrIndexOutOfRange", "MismatchType", "SerUnsupportedType",
                            "SerInfinity", "SerInvalidObjKey", "NoMem", "Unexpect"};
  return (c >= 0 && c < 16) ? n[c] : "?";
}

static vf::Counter c_accept("accepted"), c_reject("rejected"), c_rej_struct("reject:structural"),
    c_rej_inf("reject:infinity"), c_rej_str("reject:string-fault"), c_abstain("abstained:surrogate-only(C05)"),
    c_deep("deep(no value tree)");

static bool too_deep(const std::string& t) {
  size_t d = 0;
  for (char c : t) d += (c == '[' || c == '{');
  return d > 1500;
}

static std::string fault_class(const jm::Fault& f) {
  switch (f.cls) {
    case jm::Fault::Structural: return "structural";
    case jm::Fault::Infinity: return "infinity";
    case jm::Fault::String: {
      std::string s = "string";
      if (f.kinds & jm::kFkUnescaped) s += "+ctl";
      if (f.kinds & jm::kFkEscFormat) s += "+esc";
      if (f.kinds & jm::kFkEscUnicode) s += f.surrogate_only ? "+surrogate" : "+unicode";
      if (f.kinds & jm::kFkUnterminated) s += "+unterminated";
      return s;
    }
    default: return "none";
  }
}

// which error codes name the fault class the reference found
static bool code_allowed(const jm::Fault& f, int code) {
  switch (f.cls) {
    case jm::Fault::Infinity: return code == kParseErrorInfinity;
    case jm::Fault::Structural: return code == kParseErrorInvalidChar || code == kParseErrorEof;
    case jm::Fault::String:
      if (f.kinds & jm::kFkUnterminated)
        return code == kParseErrorInvalidChar || code == kParseErrorEof || code == kParseErrorUnEscaped ||
               code == kParseErrorEscapedFormat || code == kParseErrorEscapedUnicode;
      if ((f.kinds & jm::kFkUnescaped) && code == kParseErrorUnEscaped) return true;
      if ((f.kinds & jm::kFkEscFormat) && code == kParseErrorEscapedFormat) return true;
      if ((f.kinds & jm::kFkEscUnicode) && code == kParseErrorEscapedUnicode) return true;
      return false;
    default: return false;
  }
}

// A text may contain a faulty token (an overflowing number, a string literal with a raw control byte or a bad escape)
// AND be structurally broken (typically: also truncated).  The code then names "the fault class" whichever of the two
// it names: the parser is entitled to notice the structural fault without having looked into the token (its node
// budget is sized from the text length, so running out of it on the way proves that the text is not valid).  Decided
// by the reference itself on the text's skeleton: every terminated string literal is replaced by "" and every number
// token by 0; a structural code is accepted only if the reference finds a structural fault in the skeleton.
static vf::Counter c_two_faults("invalid:faulty-token-and-structural-fault(either code accepted)");
static bool structural_fault_besides_token_fault(const std::string& text, const jm::RefResult& ref, int code) {
  if ((ref.f.cls != jm::Fault::Infinity && ref.f.cls != jm::Fault::String) || (code != kParseErrorInvalidChar && code != kParseErrorEof)) return false;
  std::string sk;
  for (size_t i = 0; i < text.size();) {
    unsigned char c = (unsigned char)text[i];
    if (c == '"') {
      size_t k = i + 1;
      while (k < text.size() && text[k] != '"') k += (text[k] == '\\' && k + 1 < text.size()) ? 2 : 1;
      if (k >= text.size()) break;  // unterminated literal: the text is cut inside it; the skeleton ends here (a truncation)
      sk += "\"\"";
      i = k + 1;
    } else if (isdigit(c) || c == '-') {
      size_t k = i;
      while (k < text.size() && (isdigit((unsigned char)text[k]) || text[k] == '-' || text[k] == '+' || text[k] == '.' || text[k] == 'e' || text[k] == 'E')) k++;
      // only a token the reference accepts as a number is neutralised; anything else stays and is a structural fault
      jm::RefResult nr = jm::ref_parse(text.substr(i, k - i));
      bool number = nr.ok || nr.f.cls == jm::Fault::Infinity;
      sk += number ? "0" : text.substr(i, k - i);
      i = k;
    } else {
      sk += (char)c;
      i++;
    }
  }
  jm::RefResult rr = jm::ref_parse(sk);
  if (!rr.ok && rr.f.cls == jm::Fault::Structural) {
    c_two_faults.add();
    return true;
  }
  return false;
}

template <class Doc>
static void judge_parse(Doc& d, const std::string& text, const jm::RefResult& ref, const char* cfg, bool deep) {
  bool ok = !d.HasParseError();
  int code = (int)d.GetParseError();
  size_t off = d.GetErrorOffset();
  std::string ctx = std::string(cfg);
  if (g_prop == "C01") {
    if (ref.f.cls == jm::Fault::String && ref.f.surrogate_only) {
      c_abstain.add();
      return;  // accept/reject of surrogate pairing belongs to C05
    }
    if (ok != ref.ok) {
      vf::violation(std::string("accept-mismatch:") + (ref.ok ? "valid-rejected" : "invalid-accepted:" + fault_class(ref.f)),
                    ctx + ": library " + (ok ? "accepted" : std::string("rejected with ") + code_name(code)) +
                        ", reference " + (ref.ok ? "accepts" : "rejects (" + fault_class(ref.f) + " at " + std::to_string(ref.f.pos) + ")") +
                        " text=" + vf::printable(text));
      return;
    }
    if (ok) {
      if (code != kErrorNone) vf::violation("success-code", ctx + ": HasParseError false but code " + code_name(code));
      if (off != text.size())
        vf::violation("success-offset", ctx + ": offset " + std::to_string(off) + " != length " + std::to_string(text.size()) +
                                            " text=" + vf::printable(text));
    } else {
      if (!d.IsNull()) vf::violation("failure-not-null", ctx + ": document not null after failed parse text=" + vf::printable(text));
      if (off > text.size())
        vf::violation("failure-offset-beyond-length",
                      ctx + ": offset " + std::to_string(off) + " > length " + std::to_string(text.size()) + " text=" + vf::printable(text));
      if (code <= 0 || code > kParseErrorInvalidUTF8) {
        vf::violation("failure-code-not-parse-error", ctx + ": code " + std::to_string(code) + " text=" + vf::printable(text));
      } else if (!code_allowed(ref.f, code) && !structural_fault_besides_token_fault(text, ref, code)) {
        vf::violation("failure-code-class:" + fault_class(ref.f) + "->" + code_name(code),
                      ctx + ": reference fault " + fault_class(ref.f) + " at " + std::to_string(ref.f.pos) + " reported as " +
                          code_name(code) + " text=" + vf::printable(text));
      }
    }
  } else if (g_prop == "C03") {
    if (!ref.ok) return;
    if (!ok) {
      // accept/reject belongs to C01; without a document there is nothing to read back
      vf::count("c03:valid-text-rejected(left to C01)");
      return;
    }
    if (deep) return;
    JVal got;
    std::string why;
    if (!su::read_node(d, got, why)) {
      vf::violation("accessor-inconsistent", ctx + ": " + why + " text=" + vf::printable(text));
      return;
    }
    if (!jm::equal(got, ref.v)) {
      vf::violation("value-mismatch", ctx + ": first difference (got vs expected) " + jm::first_diff(got, ref.v) +
                                          " text=" + vf::printable(text));
      return;
    }
  } else {  // C02: the outcome must not depend on heap contents (compared across heap-fill runs by the driver)
    uint64_t h = vf::hash_combine(vf::hash_combine(ok, (uint64_t)code), off);
    if (ok && !deep) {
      JVal got;
      std::string why;
      if (su::read_node(d, got, why)) h = vf::hash_combine(h, jm::hash_val(got));
      else vf::violation("accessor-inconsistent", ctx + ": " + why + " text=" + vf::printable(text));
    }
    vf::outcome(vf::hash_combine(h, vf::hash_str(text)));
  }
}

// FindMember on duplicated keys must return the first (C03)
template <class NodeT>
static void check_first_dup(const NodeT& n, const JVal& v, const std::string& text) {
  if (v.k == JVal::Arr) {
    size_t i = 0;
    for (auto it = n.Begin(); it != n.End(); ++it, ++i) check_first_dup(*it, v.a[i], text);
  } else if (v.k == JVal::Obj) {
    size_t i = 0;
    for (auto it = n.MemberBegin(); it != n.MemberEnd(); ++it, ++i) {
      const std::string& k = v.o[i].first;
      size_t first = 0;
      while (v.o[first].first != k) first++;
      auto f = n.FindMember(StringView(k.data(), k.size()));
      if (f == n.MemberEnd() || (size_t)(f - n.MemberBegin()) != first)
        vf::violation("findmember-not-first", "FindMember(" + vf::printable(k) + ") did not return member " + std::to_string(first) +
                                                  " text=" + vf::printable(text));
      if (!n.HasMember(StringView(k.data(), k.size()))) vf::violation("hasmember-false", "HasMember false for present key");
      check_first_dup(it->value, v.o[i].second, text);
    }
  }
}

template <class Doc>
static void parse_once(const std::string& text, const jm::RefResult& ref, const char* cfg, bool deep) {
  ExactBuf b(text);
  Doc d;
  d.Parse(b.p, b.n);
  judge_parse(d, text, ref, cfg, deep);
  if (g_prop == "C03" && ref.ok && !d.HasParseError() && !deep) check_first_dup(d, ref.v, text);
  if (g_prop == "C03") {
    // the same text parsed into a document object that has parsed every earlier input of this worker: the value a
    // text denotes must not depend on what the document object parsed before
    static Doc* reused = new Doc();
    static vf::Counter c_reused("c03:parses-into-a-long-lived-reused-document");
    c_reused.add();
    reused->Parse(b.p, b.n);
    std::string rcfg = std::string(cfg) + "(reused document)";
    judge_parse(*reused, text, ref, rcfg.c_str(), deep);
  }
}

static void one_input(const std::string& text) {
  vf::witness(text);
  vf::eval();
  bool deep = too_deep(text);
  jm::RefOpts ro;
  ro.build = !deep;
  jm::RefResult ref = jm::ref_parse(text, ro);
  if (deep) c_deep.add();
  if (ref.ok) c_accept.add();
  else {
    c_reject.add();
    if (ref.f.cls == jm::Fault::Structural) c_rej_struct.add();
    else if (ref.f.cls == jm::Fault::Infinity) c_rej_inf.add();
    else c_rej_str.add();
  }
  if (text.size() <= 1) vf::trivial(); else vf::distinct(vf::hash_str(text));
  std::string cls = ref.ok ? std::string("valid") : "invalid:" + fault_class(ref.f);
  if (vf::want_sample(cls)) vf::sample(cls, vf::printable(text, 120));
  parse_once<su::PoolDoc>(text, ref, "pool", deep);
  parse_once<su::SimpleDoc>(text, ref, "simple", deep);
}

// ---------------------------------------------------------------- C02 histories
static vf::Counter c_hist("c02:histories"), c_hist_steps("c02:history-steps"), c_fail_then("c02:followups-after-failed-parse"),
    c_ledger_checks("c02:ledger-quiescent-checks");

template <class Doc>
static void expect_parse(Doc& d, const std::string& text, const char* cfg, const char* when) {
  // oracle: the reused document behaves exactly like a fresh document of the
  // same type given the same text (whether that behaviour is right is C01/C03)
  ExactBuf b(text);
  vf::witness(text);
  vf::eval();
  d.Parse(b.p, b.n);
  Doc fresh;
  fresh.Parse(b.p, b.n);
  bool deep = too_deep(text);
  bool ok = !d.HasParseError();
  if (ok != !fresh.HasParseError() || d.GetParseError() != fresh.GetParseError() || d.GetErrorOffset() != fresh.GetErrorOffset()) {
    vf::violation(std::string("reuse-result-differs-from-fresh:") + when,
                  std::string(cfg) + ": after " + when + " reused document: " + code_name(d.GetParseError()) + "@" +
                      std::to_string(d.GetErrorOffset()) + ", fresh document: " + code_name(fresh.GetParseError()) + "@" +
                      std::to_string(fresh.GetErrorOffset()) + " text=" + vf::printable(text));
    return;
  }
  vf::outcome(vf::hash_combine(vf::hash_combine(ok, (uint64_t)d.GetParseError()), d.GetErrorOffset()));
  if (!ok) {
    if (!d.IsNull()) vf::violation("reuse-failure-not-null", std::string(cfg) + ": not null after failed parse");
    return;
  }
  if (deep) return;
  JVal got, want;
  std::string why;
  if (!su::read_node(d, got, why) || !su::read_node(fresh, want, why)) {
    vf::violation(std::string("reuse-accessor-inconsistent:") + when, std::string(cfg) + ": " + why);
    return;
  }
  if (!jm::equal(got, want))
    vf::violation(std::string("reuse-value-differs-from-fresh:") + when,
                  std::string(cfg) + ": after " + when + " first difference (reused vs fresh) " + jm::first_diff(got, want));
  vf::outcome(jm::hash_val(got));
  std::string dump = d.Dump(), dump2 = fresh.Dump();
  if (dump != dump2)
    vf::violation(std::string("reuse-dump-differs-from-fresh:") + when, std::string(cfg) + ": " + vf::printable(dump) + " vs " + vf::printable(dump2));
}

static std::string gen_any_text(vf::Rng& r, bool want_invalid) {
  jm::GenOpts go;
  go.max_depth = 4;
  JVal v = jm::gen_document(r, go);
  jm::RenderOpts ro;
  std::string t = jm::render(v, r, ro);
  if (want_invalid) {
    switch (r.below(4)) {
      case 0: {  // truncate inside open containers
        size_t n = t.size() ? r.below(t.size()) : 0;
        t.resize(n);
        break;
      }
      case 1: t = jm::hostile_text(r, 200); break;
      default: {
        int k = (int)r.range(1, 3);
        for (int i = 0; i < k; i++) t = jm::mutate(t, r);
      }
    }
  }
  return t;
}

template <class Doc>
static void history(vf::Rng& r, const char* cfg) {
  c_hist.add();
  {
    Doc d;
    int steps = (int)r.range(2, 8);
    bool last_failed = false;
    for (int s = 0; s < steps; s++) {
      c_hist_steps.add();
      std::string when = last_failed ? "failed-parse" : "ok-parse";
      if (last_failed) c_fail_then.add();
      switch (r.below(8)) {
        case 0:
        case 1:
        case 2: {  // reparse (valid or invalid)
          std::string t = gen_any_text(r, r.coin());
          vf::note("Parse");
          expect_parse(d, t, cfg, when.c_str());
          last_failed = d.HasParseError();
          break;
        }
        case 3: {  // build through the mutation API on the same document
          vf::note("SetObject+AddMember+PushBack");
          typename Doc::Allocator& a = d.GetAllocator();  // Swap/move may have exchanged allocators
          d.SetObject();
          typename Doc::NodeType arr;
          arr.SetArray();
          for (int i = 0; i < 20; i++) arr.PushBack(typename Doc::NodeType((uint64_t)i), a);
          d.AddMember("k", std::move(arr), a);
          d.AddMember("s", typename Doc::NodeType("copied-string-value", a), a);
          std::string dump = d.Dump();
          if (dump != "{\"k\":[0,1,2,3,4,5,6,7,8,9,10,11,12,13,14,15,16,17,18,19],\"s\":\"copied-string-value\"}")
            vf::violation("reuse-mutation-after:" + when, std::string(cfg) + ": unexpected dump " + vf::printable(dump));
          last_failed = false;
          break;
        }
        case 4: {  // move the document out and back
          vf::note("move-construct/assign");
          Doc e(std::move(d));
          d = std::move(e);
          break;
        }
        case 5: {  // swap with a fresh parsed document
          vf::note("Swap");
          Doc e;
          std::string t = gen_any_text(r, false);
          expect_parse(e, t, cfg, "fresh");
          bool e_failed = e.HasParseError();
          d.Swap(e);
          last_failed = e_failed;
          break;
        }
        case 6: {  // ParseOnDemand on the same document
          vf::note("ParseOnDemand");
          std::string t = gen_any_text(r, r.below(3) == 0);
          ExactBuf b(t);
          vf::witness(t);
          JsonPointer p;
          if (r.coin()) p.push_back(JsonPointerNode(std::string("a")));
          else if (r.coin()) p.push_back(JsonPointerNode((int)r.below(3)));
          d.ParseOnDemand(b.p, b.n, p);
          last_failed = d.HasParseError();
          if (!last_failed) (void)d.Dump();
          break;
        }
        default: {  // read-only use in whatever state it is
          vf::note("Dump");
          std::string dump = d.Dump();
          if (!last_failed && dump.empty()) vf::violation("reuse-dump-empty", std::string(cfg) + ": Dump empty after " + when);
          break;
        }
      }
    }
  }
}

// Parse with a pooling allocator that lives in a user-supplied buffer: the buffer is an exact-size heap block
// (ASan red zones on both sides), handed over at an aligned or misaligned address; small documents whose
// allocations end near the advertised capacity.
static vf::Counter c_userbuf("c02:parses-on-user-buffer-pool"), c_userbuf_mis("c02:user-buffer-misaligned"), c_userbuf_spill("c02:user-buffer-exhausted(spilled-to-chunks)");
static void userbuf_case(vf::Rng& r) {
  size_t mis = r.below(3) == 0 ? 0 : r.range(1, 7);
  size_t size = r.range(120, 700);
  char* block = (char*)malloc(size + mis);
  if (mis) c_userbuf_mis.add();
  {
    MemoryPoolAllocator<> alloc(block + mis, size, 4096);
    int n = (int)r.range(1, 3);
    for (int k = 0; k < n; k++) {
      std::string t = gen_any_text(r, r.below(3) == 0);
      if (t.size() > size) t.resize(r.range(0, size / 3));
      if (r.below(4) == 0) t = "[1,  ";
      vf::witness(t);
      vf::eval();
      c_userbuf.add();
      ExactBuf b(t);
      su::PoolDoc d(&alloc);
      vf::note("Parse(user-buffer pool)");
      d.Parse(b.p, b.n);
      jm::RefResult ref = jm::ref_parse(t);
      if (ref.f.cls == jm::Fault::String && ref.f.surrogate_only) continue;
      if (!d.HasParseError() != ref.ok) vf::violation("userbuf-accept-mismatch", "pool on user buffer: text=" + vf::printable(t));
      if (!d.HasParseError() && !too_deep(t)) {
        JVal got;
        std::string why;
        if (!su::read_node(d, got, why) || !jm::equal(got, ref.v)) vf::violation("userbuf-value-mismatch", "pool on user buffer: " + jm::first_diff(got, ref.v));
      }
      if (alloc.Capacity() > size) c_userbuf_spill.add();
      if (r.coin()) alloc.Clear();
    }
  }
  free(block);
}

// a pool with the adaptive chunk policy that starts small (1..32 KiB) and meets texts of 100 bytes .. 300 KiB in varying
// order: chunk sizes grow with the requests, and a chunk must never be smaller than the request that opened it
static vf::Counter c_adaptive_grow("adaptive-pool:small-start-meets-large-text");
static void adaptive_growth_case(vf::Rng& r) {
  size_t start = (size_t)1 << r.range(10, 15);
  su::AdaptivePool alloc(start);
  int n = (int)r.range(1, 4);
  for (int k = 0; k < n; k++) {
    size_t want = r.below(3) == 0 ? r.range(100, 2000) : r.below(2) ? r.range(20000, 70000) : r.range(60000, 300000);
    std::string t;
    switch (r.below(3)) {
      case 0: t = "[\"" + std::string(want, 'x') + "\"]"; break;
      case 1: { t = "["; while (t.size() < want) t += std::to_string(r.below(100000)) + ","; t += "0]"; break; }
      default: { t = "{"; size_t i = 0; while (t.size() < want) t += "\"k" + std::to_string(i++) + "\":\"" + std::string(r.below(200), 'v') + "\","; t += "\"z\":null}"; break; }
    }
    if (r.below(5) == 0) t.resize(r.below(t.size()));  // truncated: error path with a large string buffer
    c_adaptive_grow.add();
    vf::eval();
    vf::witness("adaptive pool starting at " + std::to_string(start) + " bytes, text of " + std::to_string(t.size()) + " bytes: " + t.substr(0, 60));
    vf::distinct(vf::hash_combine(vf::hash_str(t), start));
    ExactBuf b(t);
    su::AdaptiveDoc d(&alloc);
    vf::note("Parse(adaptive pool, small start)");
    d.Parse(b.p, b.n);
    jm::RefResult ref = jm::ref_parse(t);
    if (!d.HasParseError() != ref.ok) vf::violation("adaptive-accept-mismatch", "adaptive pool: text of " + std::to_string(t.size()) + " bytes");
    if (!d.HasParseError()) {
      JVal got;
      std::string why;
      if (!su::read_node(d, got, why) || !jm::equal(got, ref.v)) vf::violation("adaptive-value-mismatch", "adaptive pool: " + jm::first_diff(got, ref.v));
    }
    if (r.below(3) == 0) alloc.Clear();
  }
}

static void track_history(vf::Rng& r) {
  su::ledger_reset();
  history<su::TrackDoc>(r, "track");
  c_ledger_checks.add();
  size_t live = su::ledger_live();
  uint64_t errs = su::ledger_errors();
  if (errs) vf::violation("ledger-bad-free", su::ledger().last_error);
  if (live) vf::violation("ledger-leak", std::to_string(live) + " blocks still allocated after the document was destroyed");
  su::ledger_reset();
}

// ---------------------------------------------------------------- streams
static const char kAlpha24[] = "{}[]:,\"\\0129.-+eEtfn au\x01 ";  // 24 bytes
static const char kAlpha12[] = "[]{}:,\"\\1e-a";                  // 12 bytes

static std::vector<std::string> g_files;

static std::string doc_text(uint64_t seed, const char* stream, uint64_t doc_idx, unsigned depth = 5) {
  vf::Rng r(seed, vf::hash_str(stream), doc_idx);
  jm::GenOpts go;
  go.max_depth = depth;
  go.dup_keys = (doc_idx % 5 == 0);
  JVal v = jm::gen_document(r, go);
  jm::RenderOpts ro;
  ro.ws_percent = (unsigned)r.pick(std::vector<unsigned>{0, 5, 10, 40});
  ro.long_ws_permille = 20;
  return jm::render(v, r, ro);
}

// ---- very deep documents: parsed and destroyed on a thread with a fixed 8 MiB stack in a forked child (the usual main-thread
// stack limit), so that recursion depth proportional to the nesting of the text shows up as a child killed by a signal
static vf::Counter c_lookalike("parsed-objects-with-look-alike-keys");
static vf::Counter c_vdeep("very-deep-documents-parsed-and-destroyed(8MiB-stack)"), c_deep_ok("very-deep:survived");
struct DeepJob {
  const std::string* text;
  int kind;
  int rc;
};
static void* deep_thread(void* a) {
  DeepJob* j = (DeepJob*)a;
  if (j->kind == 0) {
    su::SimpleDoc d;
    d.Parse(j->text->data(), j->text->size());
    j->rc = d.HasParseError() ? 1 : 0;
  } else {
    su::PoolDoc d;
    d.Parse(j->text->data(), j->text->size());
    j->rc = d.HasParseError() ? 1 : 0;
  }
  return nullptr;
}
// 0: parsed and destroyed, 1: parse error, -sig: child killed by a signal, 100+: harness trouble
static int deep_child(const std::string& text, int kind) {
  fflush(nullptr);
  pid_t pid = fork();
  if (pid < 0) return 100;
  if (pid == 0) {
    alarm(300);
    int nul = open("/dev/null", O_WRONLY);  // a sanitizer's stack-overflow report of the child must not end up in the worker's log
    if (nul >= 0) dup2(nul, 2);
    pthread_attr_t at;
    pthread_attr_init(&at);
    pthread_attr_setstacksize(&at, (size_t)8 << 20);
    pthread_t th;
    DeepJob j{&text, kind, 0};
    if (pthread_create(&th, &at, deep_thread, &j)) _exit(101);
    pthread_join(th, nullptr);
    _exit(j.rc);
  }
  int st = 0;
  while (waitpid(pid, &st, 0) < 0 && errno == EINTR) {
  }
  if (WIFEXITED(st)) return WEXITSTATUS(st) <= 1 || WEXITSTATUS(st) >= 100 ? WEXITSTATUS(st) : -WEXITSTATUS(st) - 1000;  // sanitizer exit codes count as death
  return -WTERMSIG(st);
}
static void deep_case(uint64_t i, vf::Rng& r) {
  static const size_t depths[] = {2000, 20000, 1000000};
  size_t depth = depths[i % 3];
  int kind = (int)((i / 3) % 2);     // 0: allocator that really frees, 1: pool
  int shape = (int)((i / 6) % 3);    // arrays, objects, mixed
  std::string t, close;
  t.reserve(depth * 7);
  for (size_t k = 0; k < depth; k++) {
    bool arr = shape == 0 || (shape == 2 && r.coin());
    if (arr) { t += "["; close += "]"; }
    else { t += "{\"a\":"; close += "}"; }
  }
  t += "1";
  t.append(close.rbegin(), close.rend());
  c_vdeep.add();
  vf::eval();
  vf::distinct(vf::hash_combine(depth * 8 + kind * 4 + shape, 0xdee9));
  std::string what = std::string(kind == 0 ? "freeing-allocator" : "pool-allocator") + ":" + (shape == 0 ? "arrays" : shape == 1 ? "objects" : "mixed");
  vf::witness("valid text nested " + std::to_string(depth) + " deep (" + what + "), parsed and destroyed on an 8 MiB stack");
  vf::note("very deep document");
  int rc = deep_child(t, kind);
  if (rc == 0) { c_deep_ok.add(); return; }
  if (rc >= 100) { vf::count("harness:deep-child-could-not-run"); return; }
  if (rc == 1) { vf::violation("deep-document:valid-text-rejected:" + what, "depth " + std::to_string(depth)); return; }
  if (depth >= 1000000) vf::violation("deep-document:recursion-exhausts-8MiB-stack:depth=1000000:" + std::string(kind == 0 ? "freeing-allocator" : "pool-allocator"), what + ", child status " + std::to_string(rc));
  else vf::violation("deep-document:child-died:depth<=20000:" + what, "depth " + std::to_string(depth) + ", child status " + std::to_string(rc));
}

#ifndef VF_FUZZ_TARGET
int main(int argc, char** argv) {
  for (int i = 1; i + 1 < argc; i++)
    if (std::string(argv[i]) == "--prop") g_prop = argv[i + 1];
  uint64_t seed = 1;
  if (const char* e = getenv("VERIF_SEED")) seed = strtoull(e, nullptr, 10);
  for (int i = 1; i + 1 < argc; i++)
    if (std::string(argv[i]) == "--seed") seed = strtoull(argv[i + 1], nullptr, 10);

  std::vector<vf::Stream> S;
  bool c02 = g_prop == "C02", c03 = g_prop == "C03";

  if (!c03) {
    // all byte strings of length <= 2, 256 per case
    S.push_back({"bytes_le2", 258, 258, [](uint64_t i, vf::Rng&) {
                   if (i == 0) {
                     one_input("");
                     for (int a = 0; a < 256; a++) one_input(std::string(1, (char)a));
                     return;
                   }
                   if (i == 257) return;
                   int a = (int)(i - 1);
                   for (int b = 0; b < 256; b++) {
                     std::string t;
                     t += (char)a;
                     t += (char)b;
                     one_input(t);
                   }
                 }, false});
    S.push_back({"alpha24_len3", 24 * 24, 24 * 24, [](uint64_t i, vf::Rng&) {
                   for (int c = 0; c < 24; c++) {
                     std::string t;
                     t += kAlpha24[i / 24];
                     t += kAlpha24[i % 24];
                     t += kAlpha24[c];
                     one_input(t);
                   }
                 }, false});
    // 12-byte alphabet, lengths 4..6 (thorough only; quick runs length 4)
    S.push_back({"alpha12_len4to6", 12 * 12 * 12, 12 * 12 * 12 * 12 * 12, [](uint64_t i, vf::Rng&) {
                   bool th = vf::args().thorough;
                   if (!th) {
                     for (int c = 0; c < 12; c++) {
                       std::string t;
                       t += kAlpha12[(i / 144) % 12];
                       t += kAlpha12[(i / 12) % 12];
                       t += kAlpha12[i % 12];
                       t += kAlpha12[c];
                       one_input(t);
                     }
                     return;
                   }
                   std::string p5;
                   uint64_t x = i;
                   for (int k = 0; k < 5; k++) {
                     p5 += kAlpha12[x % 12];
                     x /= 12;
                   }
                   if (i < 12 * 12 * 12 * 12) one_input(p5.substr(0, 4));
                   one_input(p5);
                   for (int c = 0; c < 12; c++) one_input(p5 + kAlpha12[c]);
                 }, false});
  }
  if (g_prop == "C01") {
    S.push_back({"oracle_selftest", 6000, 300000, [seed](uint64_t i, vf::Rng& r) {
                   std::string t = doc_text(seed, "selftest_doc", i / 4, 4);
                   if (t.size() > 3000) return;
                   if (i % 4) {
                     int k = (int)r.range(1, 2);
                     for (int j = 0; j < k; j++) t = jm::mutate(t, r);
                   }
                   vf::witness(t);
                   oracle_selftest(t);
                 }});
  }
  // every byte value dropped into an inter-token gap behind 0..70 blanks (the vector kernels classify gap bytes with
  // table lookups on nibbles: one wrong table entry makes exactly one stray byte value pass as a blank)
  S.push_back({"every_byte_in_a_gap", 256, 256, [](uint64_t i, vf::Rng& r) {
                 static const size_t blanks[] = {0, 1, 2, 3, 5, 14, 15, 16, 17, 31, 33, 62, 63, 64, 65, 70};
                 std::string b(1, (char)i);
                 for (size_t k : blanks) {
                   std::string ws;
                   for (size_t j = 0; j < k; j++) ws += " \t\n\r"[r.below(8) ? 0 : r.below(4)];
                   one_input("[1," + ws + b + "2]");
                   one_input("[1" + ws + b + ",2]");
                   one_input("{\"a\"" + ws + b + ":1}");
                   one_input("{\"a\":" + ws + b + "1}");
                   one_input("{\"a\":1," + ws + b + "\"b\":2}");
                   one_input("[[]" + ws + b + "]");
                   one_input("[" + ws + b + "]");
                   one_input(ws + b + "[]");
                   one_input("[]" + ws + b);
                 }
               }, false});
  // unclosed openers that fill the builder's node stack (sized from the text length) to exactly its capacity, then a
  // value of every kind and number path: the push of that value is the first one refused
  S.push_back({"openers_filling_the_node_stack_exactly", 70, 70, [](uint64_t i, vf::Rng& r) {
                 static const char* vals[] = {"7", "-7", "1.5", "1e23", "1e-30", "0.30000000000000004", "123456789012345678", "12345678901234567890", "-0.0", "1E400",
                                              "9007199254740993.5", "1.7976931348623157e308", "\"s\"", "\"\\n\"", "true", "null", "[]", "{}"};
                 static const char* tails[] = {"]", "", ",1]", "]]", ",2.2250738585072014e-308]"};
                 size_t n = i + 1;
                 for (const char* v : vals)
                   for (const char* tl : tails)
                     for (int shape = 0; shape < 3; shape++) {
                       std::string t;
                       for (size_t k = 0; k < n; k++) t += shape == 0 ? "[" : shape == 1 ? ((k & 1) ? "{\"a\":" : "[") : (r.below(4) ? "[" : "{\"\":");
                       one_input(t + v + tl);
                       one_input(t + v + "," + v + tl);
                     }
               }, false});
  // a complete number token directly followed by more number-like bytes (a second fraction, a second exponent): the
  // fault is the stray byte after the token, whatever a number routine that reads on would make of the longer lexeme
  S.push_back({"number_followed_by_number_like_garbage", 3000, 100000, [](uint64_t, vf::Rng& r) {
                 std::string t = r.coin() ? "-" : "";
                 size_t ni = r.range(1, 25);
                 t += (char)('1' + r.below(9));
                 for (size_t k = 1; k < ni; k++) t += (char)('0' + r.below(10));
                 if (r.below(4)) {
                   t += ".";
                   for (size_t k = r.range(1, 30); k; k--) t += (char)('0' + r.below(10));
                 }
                 if (r.below(3) == 0) t += (r.coin() ? "e" : "E") + std::string(r.coin() ? "-" : "") + std::to_string(r.below(30));
                 // garbage that continues the lexeme
                 switch (r.below(5)) {
                   case 0: t += "." + std::to_string(r.below(1000000)) + "e" + std::to_string(r.range(300, 4000000)); break;
                   case 1: t += ".5"; break;
                   case 2: t += "e" + std::to_string(r.range(300, 5000)); break;  // a second exponent, or a plain overflow when there was none
                   case 3: t += ".e400"; break;
                   default: t += "." + std::to_string(r.below(100)) + "." + std::to_string(r.below(100)) + "E+999"; break;
                 }
                 switch (r.below(3)) {
                   case 0: one_input(t); break;
                   case 1: one_input("[" + t + "]"); break;
                   default: one_input("{\"k\":" + t + "}"); break;
                 }
               }});
  // a run of 0..260 blanks at the end of a truncated text and inside a complete one, at pads 0..3: the block-wise
  // whitespace scan has to find the end of the run (or of the input) wherever it falls in a 64-byte block
  S.push_back({"blank_runs_of_every_length", 261, 261, [](uint64_t i, vf::Rng& r) {
                 std::string ws(i, ' ');
                 if (i && r.coin()) for (auto& ch : ws) ch = " \t\n\r"[r.below(4)];
                 for (size_t pad = 0; pad < 4; pad++) {
                   std::string p(pad, ' ');
                   one_input(p + "[1," + ws);
                   one_input(p + "[1," + ws + "2]");
                   one_input(p + "{\"a\":" + ws);
                   one_input(p + "{\"a\":" + ws + "\"v\"}");
                   one_input(p + "[" + ws + "]" + ws);
                   one_input(p + "[[]" + ws);
                 }
               }, false});
  // texts with two faults: openers that exhaust the node budget (or are simply never closed), then a faulty token of every
  // kind, then more text that may itself end inside a string literal
  S.push_back({"faulty_token_in_structurally_broken_text", 4000, 200000, [](uint64_t, vf::Rng& r) {
                 static const char* toks[] = {"1E400", "157e93134862315852315308", "\"a\\qb\"", "\"\\u12g4\"", "\"\\ud800\"", "\"tab\there\"", "\"nul\0byte\"", "-", "01", "1.", "tru", "\"\\"};
                 std::string t(r.below(4), ' ');
                 size_t n = r.range(1, 120);
                 for (size_t k = 0; k < n; k++) t += r.below(6) ? "[" : "{\"k\":";
                 std::string tok = toks[r.below(12)];
                 if (tok == "\"nul\0byte\"") tok = std::string("\"nul") + '\0' + "byte\"";
                 t += tok;
                 switch (r.below(5)) {
                   case 0: break;
                   case 1: t += "]"; break;
                   case 2: t += ",[[],{\"x\": 8460597630904001651},[-2.28"; break;
                   case 3: t += "[[[[\r'{.k\":?0e0]}"; break;
                   default: t += ",\"unterminated"; break;
                 }
                 one_input(t);
               }});
  // every decimal exponent -420..420 behind mantissas of several shapes: each row of the power-of-ten tables and the
  // rows just outside them (accepted, rejected as overflow or rounded to zero - and nothing read beyond the tables)
  S.push_back({"every_decimal_exponent", 841, 841, [](uint64_t i, vf::Rng& r) {
                 long e = (long)i - 420;
                 static const char* mant[] = {"1", "2.5", "0.001", "123456789012345678", "9.999999999999999999999", "0.00000000000000000001", "17976931348623157"};
                 for (const char* mm : mant) {
                   one_input("[" + std::string(mm) + (r.coin() ? "e" : "E") + std::to_string(e) + "]");
                   one_input(std::string("-") + mm + "e" + (e >= 0 && r.coin() ? "+" : "") + std::to_string(e));
                 }
               }, false});
  // texts with the maximal number of values per byte (one-character scalars, no blanks, empty keys): the parser's node stack
  // is sized from the text length, so these are the valid texts that fill it to the brim; every length 2..400
  S.push_back({"densest_valid_texts", 400, 400, [](uint64_t i, vf::Rng& r) {
                 size_t n = i + 2;
                 for (int shape = 0; shape < 4; shape++) {
                   std::string t;
                   switch (shape) {
                     case 0:  // [1,2,3,...]
                       t = "[";
                       while (t.size() + 2 <= n) t += std::string(1, (char)('0' + r.below(10))) + ",";
                       if (t.back() == ',') t.pop_back();
                       t += "]";
                       break;
                     case 1: {  // tail nesting [1,1,...,[1,[1,1]]]
                       t = "[";
                       size_t d = r.range(1, 5);
                       while (t.size() + 2 + 3 * d <= n) t += "1,";
                       std::string tail = "1";
                       for (size_t k = 0; k < d; k++) tail = "[1," + tail + "]";
                       t += tail + "]";
                       break;
                     }
                     case 2:  // {"":1,"":2,...} (duplicate empty keys are legal JSON)
                       t = "{";
                       while (t.size() + 5 <= n) t += "\"\":" + std::string(1, (char)('0' + r.below(10))) + ",";
                       if (t.back() == ',') t.pop_back();
                       t += "}";
                       break;
                     default:  // [[],[],{},...]
                       t = "[";
                       while (t.size() + 3 <= n) t += r.coin() ? "[]," : "{},";
                       if (t.back() == ',') t.pop_back();
                       t += "]";
                   }
                   one_input(t);
                 }
               }, false});
  // generated valid documents x leading pad 0..63 (every token visits every offset mod 64)
  S.push_back({"valid_doc_x_pad", (uint64_t)(c02 ? 300 : 1500), (uint64_t)(c02 ? 5000 : 60000), [seed](uint64_t i, vf::Rng& r) {
                 std::string t = doc_text(seed, "valid_doc", i);
                 size_t npads = vf::args().thorough ? 128 : 64;
                 size_t step = (g_prop == "C02") ? 7 : 1;
                 for (size_t pad = 0; pad < npads; pad += step) {
                   std::string p(pad, ' ');
                   if (pad && r.below(4) == 0)
                     for (auto& ch : p) ch = " \t\n\r"[r.below(4)];
                   one_input(p + t);
                 }
               }});
  if (c03) {
    // parsed objects whose keys are look-alikes (equal length, one differing byte at every position in turn): each
    // member must be found under its own name through both FindMember overloads, HasMember and operator[]
    S.push_back({"lookalike_keys_in_parsed_objects", 200, 2000, [](uint64_t i, vf::Rng& r) {
                   size_t len = 1 + i % 200;
                   std::string base(len, 'k');
                   for (auto& ch : base) ch = (char)('a' + r.below(26));
                   for (int rep = 0; rep < 6; rep++) {
                     size_t p = rep == 0 ? 0 : rep == 1 ? len - 1 : rep == 2 && len > 64 ? 32 + r.below(len - 64 + 1) : r.below(len);
                     std::string k1 = base, k2 = base, k3 = base;
                     k2[p] = k1[p] == 'z' ? 'y' : 'z';
                     k3[len / 2] = k1[len / 2] == 'A' ? 'B' : 'A';
                     if (k3 == k2) k3[0] = 'Q';
                     // rep 4 and 5: a LONGER name with the same prefix comes first, and a proper prefix of the names is looked up
                     bool prefix_family = rep >= 4;
                     std::string text = std::string(r.below(64), ' ') + "{" + (prefix_family ? "\"" + k1 + "_ms\":9," : "") + "\"" + k1 + "\":0,\"" + k2 + "\":1,\"" + k3 + "\":2}";
                     c_lookalike.add();
                     vf::eval();
                     vf::witness(text);
                     vf::distinct(vf::hash_str(text));
                     ExactBuf b(text);
                     su::PoolDoc d;
                     d.Parse(b.p, b.n);
                     size_t shift = prefix_family ? 1 : 0;
                     if (d.HasParseError() || !d.IsObject() || d.Size() != 3 + shift) { vf::violation("lookalike-keys:valid-text-rejected-or-wrong-shape", vf::printable(text, 200)); continue; }
                     if (rep & 1) d.CreateMap(d.GetAllocator());
                     const std::string* ks[3] = {&k1, &k2, &k3};
                     for (int q = 0; q < 3; q++) {
                       std::unique_ptr<char[]> qb(new char[len]);
                       memcpy(qb.get(), ks[q]->data(), len);
                       auto it1 = d.FindMember(StringView(qb.get(), len));
                       auto it2 = d.FindMember(qb.get(), len);
                       long g1 = it1 == d.MemberEnd() ? -1 : (long)(it1 - d.MemberBegin()), g2 = it2 == d.MemberEnd() ? -1 : (long)(it2 - d.MemberBegin());
                       const su::PoolNode& v = static_cast<const su::PoolDoc&>(d)[StringView(qb.get(), len)];
                       g1 -= (long)shift;
                       g2 -= (long)shift;
                       if (g1 != q || g2 != q || !d.HasMember(StringView(qb.get(), len)) || !v.IsUint64() || v.GetUint64() != (uint64_t)q)
                         vf::violation(std::string("lookalike-keys:member-not-found-under-its-own-name:") + ((rep & 1) ? "map" : "linear"),
                                       "key length " + std::to_string(len) + ", keys differ at byte " + std::to_string(p) + ": FindMember(view)=" + std::to_string(g1) + " FindMember(ptr,len)=" + std::to_string(g2) + " want " + std::to_string(q));
                     }
                     if (prefix_family && len > 1) {  // a proper prefix of every name is not a member
                       auto itp = d.FindMember(k1.data(), len - 1);
                       auto itv = d.FindMember(StringView(k1.data(), len - 1));
                       if (itp != d.MemberEnd() || itv != d.MemberEnd())
                         vf::violation(std::string("lookalike-keys:prefix-of-a-name-found:") + ((rep & 1) ? "map" : "linear"), "key length " + std::to_string(len - 1) + " is a proper prefix of the member names");
                     }
                   }
                 }, false});
    // container sizes around the node-copy unroll edges, scalars of every kind as last child
    S.push_back({"sizes_and_last_child", 400, 20000, [](uint64_t i, vf::Rng& r) {
                   static const size_t sizes[] = {0, 1, 2, 3, 4, 5, 7, 8, 9, 15, 16, 17, 31, 32, 33, 40, 63, 64, 65, 127, 128, 129, 130, 255, 256, 257, 1023, 1024, 1025};
                   size_t n = sizes[i % (sizeof sizes / sizeof *sizes)];
                   jm::GenOpts go;
                   go.max_depth = 2;
                   bool obj = (i / 29) & 1;
                   JVal v = obj ? JVal::obj() : JVal::arr();
                   for (size_t k = 0; k < n; k++) {
                     JVal e = (k + 1 == n) ? (r.coin() ? (r.coin() ? JVal::arr() : JVal::obj()) : jm::gen_scalar(r, go)) : jm::gen_value(r, go, 1);
                     if (obj) v.o.emplace_back("k" + std::to_string(k), std::move(e)); else v.a.push_back(std::move(e));
                   }
                   if (r.coin()) {  // nest it
                     JVal w = JVal::arr();
                     w.a.push_back(std::move(v));
                     w.a.push_back(jm::gen_scalar(r, go));
                     v = std::move(w);
                   }
                   jm::RenderOpts ro;
                   ro.ws_percent = (unsigned)(r.below(3) * 20);
                   one_input(jm::render(v, r, ro));
                 }});
    // long whitespace runs (0..200) at every grammar position of a small document
    S.push_back({"long_whitespace", 201, 2000, [](uint64_t i, vf::Rng& r) {
                   size_t run = i % 201;
                   static const char* parts[] = {"", "{", "\"k\"", ":", "[", "1", ",", "\"v\\n\"", ",", "{", "}", "]", ",", "\"z\"", ":", "-0.5e1", "}", ""};
                   const size_t np = sizeof parts / sizeof *parts;
                   for (size_t pos = 0; pos + 1 < np; pos++) {
                     std::string t;
                     for (size_t k = 0; k < np; k++) {
                       t += parts[k];
                       if (k == pos) {
                         std::string w(run, ' ');
                         if (r.coin()) for (auto& ch : w) ch = " \t\n\r"[r.below(4)];
                         t += w;
                       }
                     }
                     one_input(t);
                   }
                 }});
    // every BMP code point (and sampled supplementary ones) as a \\uXXXX escape in values and keys
    S.push_back({"every_u16_escape", 1024, 1024, [](uint64_t i, vf::Rng& r) {
                   std::string t = "{\"v\":[";
                   std::string keys;
                   for (uint32_t k = 0; k < 64; k++) {
                     uint32_t cu = (uint32_t)i * 64 + k;
                     char b[32];
                     if (cu >= 0xd800 && cu <= 0xdfff) {  // surrogates only as valid pairs
                       uint32_t hi = 0xd800 + (cu & 0x3ff), lo = 0xdc00 + (uint32_t)r.below(1024);
                       snprintf(b, sizeof b, r.coin() ? "\\u%04x\\u%04X" : "\\u%04X\\u%04x", hi, lo);
                     } else {
                       snprintf(b, sizeof b, r.coin() ? "\\u%04x" : "\\u%04X", cu);
                     }
                     t += std::string(k ? "," : "") + "\"" + std::string(r.below(3), 'p') + b + std::string(r.below(3), 's') + "\"";
                     keys += std::string(",\"k") + std::to_string(k) + b + "\":" + std::to_string(k);
                   }
                   t += "]" + keys + "}";
                   one_input(t);
                 }, false});
    // deep nesting (value tree compared up to depth 1000)
    S.push_back({"deep", 40, 400, [](uint64_t i, vf::Rng& r) {
                   size_t d = vf::args().thorough ? r.range(1, 1400) : r.range(1, 700);
                   std::string t;
                   std::string close;
                   for (size_t k = 0; k < d; k++) {
                     if (r.coin()) { t += "["; close += "]"; }
                     else { t += "{\"a\":"; close += "}"; }
                   }
                   t += (i & 1) ? "null" : "[]";
                   for (size_t k = close.size(); k-- > 0;) t += close[k];
                   one_input(t);
                 }});
  }
  if (!c03) {
    // every prefix of generated documents
    S.push_back({"all_prefixes", (uint64_t)(c02 ? 60 : 300), (uint64_t)(c02 ? 2000 : 20000), [seed](uint64_t i, vf::Rng&) {
                   std::string t = doc_text(seed, "prefix_doc", i, 4);
                   if (t.size() > 700) t.resize(700);
                   for (size_t n = 0; n < t.size(); n++) one_input(t.substr(0, n));
                 }});
    // every position x palette single-byte replacement
    S.push_back({"every_pos_x_palette", (uint64_t)(c02 ? 30 : 150), (uint64_t)(c02 ? 1000 : 8000), [seed](uint64_t i, vf::Rng&) {
                   std::string t = doc_text(seed, "palette_doc", i, 3);
                   if (t.size() > 300) t.resize(300);
                   const std::string& pal = jm::palette();
                   for (size_t p = 0; p < t.size(); p++)
                     for (char c : pal) {
                       if (t[p] == c) continue;
                       std::string m = t;
                       m[p] = c;
                       one_input(m);
                     }
                 }});
    S.push_back({"random_mutations", (uint64_t)(c02 ? 3000 : 20000), (uint64_t)(c02 ? 300000 : 3000000), [seed](uint64_t i, vf::Rng& r) {
                   std::string t = doc_text(seed, "mut_doc", i / 8, 4);
                   int k = (int)r.range(1, 3);
                   for (int j = 0; j < k; j++) t = jm::mutate(t, r);
                   one_input(t);
                 }});
    // numbers around the overflow threshold 2^1024-2^970 and other range edges, in every spelling family, nested and at the root
    S.push_back({"number_range_edges", 4000, 400000, [](uint64_t, vf::Rng& r) {
                   static std::string T;
                   if (T.empty()) {
                     char b[400];
                     snprintf(b, sizeof b, "%.0Lf", ldexpl(1.0L, 1024) - ldexpl(1.0L, 970));  // exact: 309 digits
                     T = b;
                   }
                   size_t n = r.range(1, r.coin() ? 22 : 40);
                   std::string m = T.substr(0, n);
                   int d = (int)r.range(0, 4) - 2;
                   int last = (m.back() - '0') + d;
                   m.back() = (char)('0' + (last < 0 ? 0 : last > 9 ? 9 : last));
                   long e10 = 309 - (long)n;
                   std::string t;
                   char eb[24];
                   switch (r.below(5)) {
                     case 0: snprintf(eb, sizeof eb, "%c%s%ld", r.coin() ? 'e' : 'E', r.below(3) ? "" : "+", e10); t = m + eb; break;          // integer mantissa
                     case 1: snprintf(eb, sizeof eb, "e%ld", 308L); t = m.substr(0, 1) + "." + (n > 1 ? m.substr(1) : "0") + eb; break;  // d.ddd e308
                     case 2: snprintf(eb, sizeof eb, "e%ld", e10 + (long)n); t = "0." + m + eb; break;
                     case 3: {  // other edges: subnormal threshold, tiny, huge exponents, long zeros
                       static const char* x[] = {"4.9406564584124654e-324", "2.4703282292062327e-324", "2.4703282292062328e-324", "1e-400", "1e400", "-1e400",
                                                 "0e99999", "1e-99999", "123456789012345678901234567890e280", "0.000000000000000000000000000001e339",
                                                 "9007199254740993", "9007199254740992.5", "1.00000000000000011102230246251565404236316680908203125"};
                       t = x[r.below(sizeof x / sizeof *x)];
                       break;
                     }
                     default: t = m + std::string(r.below(30), '0') + (r.coin() ? ".0" : ""); break;  // plain long integers (finite)
                   }
                   if (r.below(3) == 0) t = "-" + t;
                   switch (r.below(4)) {
                     case 0: one_input(t); break;
                     case 1: one_input("[" + t + "]"); break;
                     case 2: one_input("{\"k\":" + t + "}"); break;
                     default: one_input("[0, " + t + " ,1]"); break;
                   }
                 }});
    S.push_back({"hostile_shapes", 2000, 100000, [](uint64_t, vf::Rng& r) {
                   size_t maxlen = r.below(50) == 0 ? (vf::args().thorough ? 300000 : 40000) : 300;
                   one_input(jm::hostile_text(r, maxlen));
                 }});
  }
  if (c02) {
    S.push_back({"reuse_histories_pool", 1500, 100000, [](uint64_t, vf::Rng& r) { history<su::PoolDoc>(r, "pool"); }});
    S.push_back({"reuse_histories_adaptive", 800, 50000, [](uint64_t, vf::Rng& r) { history<su::AdaptiveDoc>(r, "adaptive-pool"); }});
    S.push_back({"reuse_histories_simple", 1500, 100000, [](uint64_t, vf::Rng& r) { history<su::SimpleDoc>(r, "simple"); }});
    S.push_back({"reuse_histories_track", 1500, 100000, [](uint64_t, vf::Rng& r) { track_history(r); }});
    S.push_back({"user_buffer_pool", 3000, 200000, [](uint64_t, vf::Rng& r) { userbuf_case(r); }});
    S.push_back({"very_deep_documents", 18, 18, deep_case, false});
    S.push_back({"adaptive_pool_growth", 400, 20000, [](uint64_t, vf::Rng& r) { adaptive_growth_case(r); }});
  }
  // bundled test data (thorough): whole files and mutations of them
  if (vf::args().thorough || true) {
    static const char* files[] = {"book.json", "canada.json", "citm_catalog.json", "github_events.json", "gsoc-2018.json",
                                  "lottie.json", "poet.json", "twitter.json", "twitterescaped.json"};
    S.push_back({"testdata_files", 0, 9 * 40, [](uint64_t i, vf::Rng& r) {
                   std::string path = std::string("/repo/testdata/") + files[i % 9];
                   std::ifstream f(path, std::ios::binary);
                   std::stringstream ss;
                   ss << f.rdbuf();
                   std::string t = ss.str();
                   if (t.empty()) return;
                   if (t.size() > (1u << 20)) t.resize(1u << 20);
                   if (i >= 9) {
                     int k = (int)r.range(1, 2);
                     for (int j = 0; j < k; j++) t = jm::mutate(t, r);
                   }
                   one_input(t);
                 }});
  }
  return vf::run(argc, argv, S);
}
#endif  // VF_FUZZ_TARGET
