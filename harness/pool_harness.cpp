// pool_harness.cpp -- C16: the pool allocator hands out aligned, disjoint, stable blocks.
// A recording base allocator logs every chunk; a lock-step model tracks every block handed out since the last
// Clear (interval map + content pattern) and the bytes consumed; ASan watches handle lifetime.
#include <map>
#include <memory>

#include "common/jmodel.h"
#include "common/sonic_util.h"
#include "common/vf.h"

using namespace sonic_json;

// ------------------------------------------------------------------ recording base allocator
struct ChunkLog {
  std::map<uintptr_t, size_t> live;  // start -> size of every block obtained from the base allocator
  uint64_t mallocs = 0, frees = 0, bad_free = 0;
};
static ChunkLog& chunk_log() {
  static ChunkLog l;
  return l;
}
class RecBase {
 public:
  static constexpr bool kNeedFree = true;
  void* Malloc(size_t n) {
    if (!n) return nullptr;
    void* p = std::malloc(n);
    if (!p) return nullptr;
    chunk_log().live[(uintptr_t)p] = n;
    chunk_log().mallocs++;
    return p;
  }
  void* Realloc(void* p, size_t, size_t n) {
    if (p) chunk_log().live.erase((uintptr_t)p);
    void* q = std::realloc(p, n);
    if (q) chunk_log().live[(uintptr_t)q] = n;
    return q;
  }
  static void Free(void* p) {
    if (!p) return;
    auto it = chunk_log().live.find((uintptr_t)p);
    if (it == chunk_log().live.end()) {
      chunk_log().bad_free++;
      return;
    }
    chunk_log().live.erase(it);
    chunk_log().frees++;
    std::free(p);
  }
};

static vf::Counter c_hist("histories"), c_ops("operations-checked"), c_malloc("op:Malloc"), c_realloc_inplace("op:Realloc-in-place"), c_realloc_moved("op:Realloc-moved"),
    c_realloc_shrink("op:Realloc-shrink-or-same"), c_clear("op:Clear"), c_copy("op:copy-handle"), c_move("op:move-handle"), c_destroy("op:destroy-handle"), c_zero("op:zero-size-request"),
    c_userbuf("pool:user-buffer"), c_userbuf_mis("pool:user-buffer-misaligned"), c_adaptive("pool:adaptive-policy"), c_simple("pool:simple-policy"), c_newchunk("event:new-chunk"),
    c_verify("content-reverifications"), c_big("op:request-larger-than-chunk"), c_docs("documents-parsed-on-small-chunk-pools"), c_default_base("pool:default-constructed-base-allocator"),
    c_unsat("op:request-that-cannot-be-satisfied(near SIZE_MAX)"), c_move_assign("op:move-assign-between-handles-of-one-pool");

static const size_t kHdr = 24;  // SONIC_ALIGN(sizeof(ChunkHeader)): capacity, size, next

struct Block {
  uintptr_t p;
  size_t size;     // requested size
  size_t asize;    // aligned size
  uint64_t serial;
};
static unsigned char pat(uint64_t serial, size_t i) { return (unsigned char)((serial * 131 + i * 7 + 13) & 0xff); }

template <class Pool>
struct PoolHist {
  vf::Rng& r;
  std::vector<std::unique_ptr<Pool>> handles;  // all refer to one pool
  std::map<uintptr_t, Block> blocks;           // since the last Clear
  uint64_t serial = 0;
  size_t consumed = 0;  // model of Size()
  uintptr_t last = 0;   // most recent block (candidate for in-place growth)
  std::string trace;
  // user buffer
  std::unique_ptr<unsigned char[]> ubuf;
  uintptr_t ub_lo = 0, ub_hi = 0;
  const char* cfg;
  bool failed = false;

  PoolHist(vf::Rng& rng, const char* c) : r(rng), cfg(c) {}
  Pool& any() { return *handles[r.below(handles.size())]; }
  void log(const std::string& s) {
    if (trace.size() < 20000) trace += s + "; ";
    vf::witness(trace);
    vf::note(s.substr(0, 120).c_str());
  }
  std::string tail() const { return trace.size() > 700 ? "..." + trace.substr(trace.size() - 700) : trace; }
  void fail(const std::string& key, const std::string& msg) {
    vf::violation(key, std::string(cfg) + ": " + msg + " trace: " + tail());
    failed = true;
  }

  // the chunk (or the user buffer) that holds [p, p+n)
  bool contained(uintptr_t p, size_t n, uintptr_t& chunk_end, std::string& why) {
    if (ub_lo && p >= ub_lo && p + n <= ub_hi) {
      chunk_end = ub_hi;
      return true;
    }
    auto& live = chunk_log().live;
    auto it = live.upper_bound(p);
    if (it == live.begin()) {
      why = "block is in no recorded chunk";
      return false;
    }
    --it;
    uintptr_t lo = it->first + kHdr, hi = it->first + it->second;
    if (p < lo || p + n > hi) {
      why = "block [" + std::to_string(p - it->first) + "," + std::to_string(p - it->first + n) + ") relative to its chunk of " + std::to_string(it->second) + " bytes (header " +
            std::to_string(kHdr) + ") is not wholly inside it";
      return false;
    }
    chunk_end = hi;
    return true;
  }
  bool check_new_block(void* vp, size_t n, const char* op) {
    uintptr_t p = (uintptr_t)vp;
    if (p & 7) {
      fail(std::string("misaligned-block:") + op, "block of " + std::to_string(n) + " bytes at address ...%" + std::to_string(p & 63) + " is not 8-byte aligned");
      return false;
    }
    uintptr_t ce;
    std::string why;
    if (!contained(p, n, ce, why)) {
      fail(std::string("block-outside-chunk:") + op, why);
      return false;
    }
    // disjoint from every block since the last Clear
    auto it = blocks.upper_bound(p);
    if (it != blocks.end() && it->first < p + n) {
      fail(std::string("blocks-overlap:") + op, "new block overlaps a later block");
      return false;
    }
    if (it != blocks.begin()) {
      --it;
      if (it->first + it->second.size > p && it->first != p) {
        fail(std::string("blocks-overlap:") + op, "new block overlaps an earlier block");
        return false;
      }
    }
    return true;
  }
  void fill(const Block& b, size_t from = 0) {
    unsigned char* q = (unsigned char*)b.p;
    for (size_t i = from; i < b.size; i++) q[i] = pat(b.serial, i);
  }
  bool verify_all(const char* when) {
    c_verify.add();
    for (auto& kv : blocks) {
      const Block& b = kv.second;
      const unsigned char* q = (const unsigned char*)b.p;
      for (size_t i = 0; i < b.size; i++)
        if (q[i] != pat(b.serial, i)) {
          fail("block-content-disturbed", std::string(when) + ": byte " + std::to_string(i) + " of block #" + std::to_string(b.serial) + " (" + std::to_string(b.size) + " bytes) changed");
          return false;
        }
    }
    return true;
  }
  void check_accounting(const char* when) {
    Pool& h = any();
    if (h.Size() != consumed) fail("size-accounting", std::string(when) + ": Size()=" + std::to_string(h.Size()) + " model=" + std::to_string(consumed));
    size_t cap = ub_lo ? ub_hi - ub_lo : 0;
    // capacity = sum of chunk capacities: every recorded base block that is a chunk (all except the shared-data block)
    size_t chunks = 0;
    for (auto& kv : chunk_log().live) chunks += kv.second;
    // recorded blocks: one shared-data block of 32+24 bytes (own buffer) + chunks of 24+capacity
    size_t nblocks = chunk_log().live.size();
    size_t expect;
    if (ub_lo) expect = cap + (chunks - nblocks * kHdr);
    else expect = chunks - 56 - (nblocks - 1) * kHdr;  // 56 = SIZEOF_SHARED_DATA(32) + SIZEOF_CHUNK_HEADER(24)
    if (h.Capacity() != expect) fail("capacity-accounting", std::string(when) + ": Capacity()=" + std::to_string(h.Capacity()) + " recorded chunks say " + std::to_string(expect));
    if (h.Size() > h.Capacity()) fail("size-exceeds-capacity", std::string(when));
  }

  size_t pick_size(size_t chunk) {
    switch (r.below(8)) {
      case 0: return r.below(10);
      case 1: return 7 + r.below(3);
      case 2: return chunk - 8 + r.below(17);
      case 3: return chunk * r.range(1, 3) + r.below(17) - 8;
      case 4: return r.range(1, 64);
      case 5: return r.range(1, chunk ? chunk : 1);
      default: return r.range(1, 40);
    }
  }

  void step(size_t chunk) {
    c_ops.add();
    vf::eval();
    unsigned op = (unsigned)r.below(20);
    if (op < 8) {  // Malloc
      size_t n = pick_size(chunk);
      if (n > chunk) c_big.add();
      size_t before = chunk_log().live.size();
      log("Malloc(" + std::to_string(n) + ")");
      void* p = any().Malloc(n);
      if (n == 0) {
        c_zero.add();
        if (p) fail("zero-size-not-null", "Malloc(0) returned a block");
        return;
      }
      c_malloc.add();
      if (!p) { fail("malloc-returned-null", "size " + std::to_string(n)); return; }
      if (chunk_log().live.size() > before) c_newchunk.add();
      if (!check_new_block(p, n, "Malloc")) return;
      Block b{(uintptr_t)p, n, (n + 7) & ~(size_t)7, ++serial};
      fill(b);
      blocks[b.p] = b;
      consumed += b.asize;
      last = b.p;
    } else if (op < 14) {  // Realloc
      if (blocks.empty() || r.below(12) == 0) {
        size_t n = pick_size(chunk);
        log("Realloc(null,0," + std::to_string(n) + ")");
        void* p = any().Realloc(nullptr, 0, n);
        if (n == 0) { c_zero.add(); if (p) fail("zero-size-not-null", "Realloc(null,0,0) returned a block"); return; }
        if (!p) { fail("malloc-returned-null", "Realloc(null)"); return; }
        if (!check_new_block(p, n, "Realloc(null)")) return;
        Block b{(uintptr_t)p, n, (n + 7) & ~(size_t)7, ++serial};
        fill(b);
        blocks[b.p] = b;
        consumed += b.asize;
        last = b.p;
        return;
      }
      // choose the most recent block half of the time (in-place path), else any block
      auto it = blocks.find(last);
      if (it == blocks.end() || r.coin()) {
        it = blocks.begin();
        std::advance(it, r.below(blocks.size()));
      }
      Block old = it->second;
      size_t n = r.below(10) == 0 ? 0 : (r.coin() ? old.size + r.range(1, 40) : pick_size(chunk));
      log("Realloc(#" + std::to_string(old.serial) + "," + std::to_string(old.size) + "->" + std::to_string(n) + (old.p == last ? ",most-recent" : "") + ")");
      uintptr_t chunk_end = 0;
      std::string why;
      contained(old.p, old.size, chunk_end, why);
      size_t before = chunk_log().live.size();
      void* q = any().Realloc((void*)old.p, old.size, n);
      if (n == 0) {
        c_zero.add();
        if (q) fail("zero-size-not-null", "Realloc(p,old,0) returned a block");
        return;  // the old block stays as it is (pool Free is a no-op)
      }
      if (!q) { fail("malloc-returned-null", "Realloc"); return; }
      size_t an = (n + 7) & ~(size_t)7;
      // what the allocator can know about the old block is the size the caller passes, not the extent it
      // reserved originally (a block that was shrunk earlier is simply a smaller block to it)
      size_t aold = (old.size + 7) & ~(size_t)7;
      if (chunk_log().live.size() > before) c_newchunk.add();
      if ((uintptr_t)q == old.p) {
        if (an <= aold) {
          c_realloc_shrink.add();
          // contents up to min(old,new) stay; the block keeps its aligned extent
          Block nb = old;  // the extent (asize) the allocator reserved stays what it was
          nb.size = n;
          blocks[old.p] = nb;
          if (n > old.size) fill(nb, old.size);
        } else {
          // grown in place: legitimate only for the most recent block with room left in its chunk
          if (old.p != last) { fail("realloc-in-place-of-non-last-block", "block #" + std::to_string(old.serial)); return; }
          if (old.p + an > chunk_end) { fail("block-outside-chunk:Realloc-in-place", "grown block runs past the end of its chunk"); return; }
          c_realloc_inplace.add();
          Block nb = old;
          nb.size = n;
          nb.asize = std::max(an, old.asize);
          blocks.erase(old.p);
          if (!check_new_block(q, n, "Realloc-in-place")) return;
          blocks[nb.p] = nb;
          // first min(old,new) bytes must be intact
          const unsigned char* c = (const unsigned char*)nb.p;
          for (size_t i = 0; i < old.size; i++)
            if (c[i] != pat(old.serial, i)) { fail("realloc-lost-contents", "in-place growth changed byte " + std::to_string(i)); return; }
          fill(nb, old.size);
          consumed += an - aold;
        }
      } else {
        if (an <= aold) { fail("realloc-moved-on-shrink", "a request that fits the old block returned another block"); return; }
        // must it have been in place?  most recent block and room in the head chunk
        // (a block that was shrunk before is no longer recognisable as the tail of its chunk: exempt)
        if (old.p == last && aold == old.asize && old.p + an <= chunk_end) { fail("realloc-not-in-place", "most recent block with room left in its chunk was moved"); return; }
        c_realloc_moved.add();
        if (!check_new_block(q, n, "Realloc-moved")) return;
        const unsigned char* c = (const unsigned char*)q;
        for (size_t i = 0; i < old.size && i < n; i++)
          if (c[i] != pat(old.serial, i)) { fail("realloc-lost-contents", "moved block differs at byte " + std::to_string(i)); return; }
        Block nb{(uintptr_t)q, n, an, ++serial};
        fill(nb);
        blocks[nb.p] = nb;  // the old block stays allocated (never freed) and keeps its pattern
        consumed += an;
        last = nb.p;
      }
    } else if (op == 14) {  // Clear
      if (r.below(4)) return;
      log("Clear");
      c_clear.add();
      if (!verify_all("before Clear")) return;
      any().Clear();
      blocks.clear();
      consumed = 0;
      last = 0;
      if (!ub_lo && chunk_log().live.size() != 1) fail("clear-kept-chunks", std::to_string(chunk_log().live.size()) + " base blocks live after Clear (expected the shared header only)");
    } else if (op == 15 || op == 16) {  // copy a handle (copy construction or copy assignment)
      log("copy-handle");
      c_copy.add();
      if (r.coin() || handles.size() < 2) handles.emplace_back(new Pool(any()));
      else {
        size_t a = r.below(handles.size()), b = r.below(handles.size());
        if (a != b) *handles[a] = *handles[b];
      }
      if (!any().Shared() && handles.size() > 1) fail("shared-flag", "Shared() false with several handles");
    } else if (op == 17) {  // move a handle
      log("move-handle");
      c_move.add();
      size_t a = r.below(handles.size());
      if (handles.size() >= 2 && r.coin()) {
        // move ASSIGNMENT onto another handle of the same pool (the sink-parameter idiom); the moved-from handle is
        // only destroyed afterwards
        size_t b = r.below(handles.size());
        if (a != b) {
          c_move_assign.add();
          *handles[a] = std::move(*handles[b]);
          handles.erase(handles.begin() + b);
          return;
        }
      }
      std::unique_ptr<Pool> moved(new Pool(std::move(*handles[a])));
      handles[a] = std::move(moved);
    } else if (op == 18) {  // destroy a handle (never the last one here)
      if (handles.size() < 2) return;
      log("destroy-handle");
      c_destroy.add();
      handles.erase(handles.begin() + r.below(handles.size()));
    } else {
      check_accounting("accounting");
    }
  }
};

template <class Policy>
static void history(vf::Rng& r, const char* cfg) {
  using Pool = MemoryPoolAllocator<RecBase, Policy>;
  c_hist.add();
  chunk_log() = ChunkLog();
  std::string trace;
  {
    static const size_t caps[] = {64, 128, 1024, 65536};
    size_t chunk = caps[r.below(4)];
    PoolHist<Pool> h(r, cfg);
    RecBase base;
    int kind = (int)r.below(4);
    if (kind == 0) {  // user buffer, maybe misaligned
      c_userbuf.add();
      size_t ubsize = r.range(64, 600);
      h.ubuf.reset(new unsigned char[ubsize + 16]);
      size_t mis = r.below(3) == 0 ? r.range(1, 7) : 0;
      if (mis) c_userbuf_mis.add();
      unsigned char* ub = h.ubuf.get();
      ub += (8 - ((uintptr_t)ub & 7)) & 7;
      ub += mis;
      h.log("pool(user-buffer " + std::to_string(ubsize) + (mis ? ",misaligned" : "") + ",chunk " + std::to_string(chunk) + ")");
      h.handles.emplace_back(new Pool(ub, ubsize, chunk, &base));
      uintptr_t aligned = ((uintptr_t)ub + 7) & ~(uintptr_t)7;
      h.ub_lo = aligned + 32 + kHdr;  // past SharedData and the first chunk header
      h.ub_hi = (uintptr_t)ub + ubsize;
    } else if (kind == 1) {
      c_default_base.add();
      h.log("pool(own buffer, default base allocator, chunk " + std::to_string(chunk) + ")");
      h.handles.emplace_back(new Pool(chunk));
    } else {
      h.log("pool(own buffer, chunk " + std::to_string(chunk) + ")");
      h.handles.emplace_back(new Pool(chunk, &base));
    }
    size_t steps = r.range(50, vf::args().thorough ? 3000 : 500);
    for (size_t s = 0; s < steps && !h.failed; s++) {
      h.step(chunk);
      if ((s & 31) == 31 && !h.failed) h.verify_all("periodic");
    }
    if (!h.failed) {
      h.verify_all("final");
      h.check_accounting("final");
    }
    // destroy all but one handle, the pool must stay usable through the survivor
    if (!h.failed) {
      while (h.handles.size() > 1) h.handles.erase(h.handles.begin() + r.below(h.handles.size()));
      h.log("last-handle-Malloc");
      void* p = h.handles[0]->Malloc(24);
      if (!p || !h.check_new_block(p, 24, "Malloc-through-last-handle")) h.failed = true;
      else memset(p, 0x5a, 24);
      h.verify_all("after destroying other handles");
    }
    trace = h.trace;
    vf::distinct(vf::hash_str(trace));
    h.handles.clear();  // last handle gone: every chunk must go back to the base allocator
  }
  if (chunk_log().bad_free) vf::violation("base-allocator-bad-free", std::string(cfg) + ": pool freed a block it did not get from the base allocator");
  if (!chunk_log().live.empty())
    vf::violation("chunks-not-returned", std::string(cfg) + ": " + std::to_string(chunk_log().live.size()) + " base blocks still allocated after the last handle was destroyed; trace ..." +
                                             trace.substr(trace.size() > 500 ? trace.size() - 500 : 0));
  for (auto& kv : chunk_log().live) std::free((void*)kv.first);
  chunk_log() = ChunkLog();
}

// documents on pools with tiny chunks: every node block crosses chunk boundaries often; content must survive
template <class Policy>
static void doc_case(vf::Rng& r, const char* cfg) {
  using Pool = MemoryPoolAllocator<RecBase, Policy>;
  using NodeT = DNode<Pool>;
  using Doc = GenericDocument<NodeT>;
  chunk_log() = ChunkLog();
  {
    c_docs.add();
    vf::eval();
    static const size_t caps[] = {64, 128, 256, 1024};
    RecBase base;
    Pool pool(caps[r.below(4)], &base);
    jm::GenOpts go;
    go.max_depth = 4;
    go.big_container_permille = 100;
    jm::JVal v = jm::gen_document(r, go);
    jm::RenderOpts ro;
    std::string text = jm::render(v, r, ro);
    jm::RefResult ref = jm::ref_parse(text);
    if (!ref.ok) return;
    vf::witness(text);
    Doc d(&pool);
    d.Parse(text.data(), text.size());
    if (d.HasParseError()) return;
    // grow it through the API too (Realloc paths of containers)
    Doc e(&pool);
    e.SetArray();
    for (size_t i = 0; i < 70; i++) e.PushBack(NodeT((uint64_t)i), pool);
    jm::JVal got;
    std::string why;
    if (!su::read_node(d, got, why) || !jm::equal(got, ref.v))
      vf::violation("document-on-small-chunk-pool-differs", std::string(cfg) + ": " + jm::first_diff(got, ref.v) + " text=" + vf::printable(text, 150));
    for (size_t i = 0; i < 70; i++)
      if (!e[i].IsUint64() || e[i].GetUint64() != i) {
        vf::violation("array-on-small-chunk-pool-differs", std::string(cfg) + ": element " + std::to_string(i));
        break;
      }
    if (pool.Size() > pool.Capacity()) vf::violation("size-exceeds-capacity", std::string(cfg) + ": document pool");
    vf::distinct(vf::hash_str(text));
  }
  if (!chunk_log().live.empty()) vf::violation("chunks-not-returned", std::string(cfg) + ": document pool");
  for (auto& kv : chunk_log().live) std::free((void*)kv.first);
  chunk_log() = ChunkLog();
}

int main(int argc, char** argv) {
  std::vector<vf::Stream> S;
  S.push_back({"histories_simple_policy", 3000, 100000, [](uint64_t, vf::Rng& r) { c_simple.add(); history<SimpleChunkPolicy>(r, "simple-policy"); }});
  S.push_back({"histories_adaptive_policy", 3000, 100000, [](uint64_t, vf::Rng& r) { c_adaptive.add(); history<AdaptiveChunkPolicy>(r, "adaptive-policy"); }});
  S.push_back({"documents_simple_policy", 2000, 100000, [](uint64_t, vf::Rng& r) { doc_case<SimpleChunkPolicy>(r, "simple-policy"); }});
  S.push_back({"documents_adaptive_policy", 2000, 100000, [](uint64_t, vf::Rng& r) { doc_case<AdaptiveChunkPolicy>(r, "adaptive-policy"); }});
  // adaptive policy: first request above the 64 KiB cap on a pool that has not grown yet
  S.push_back({"adaptive_large_requests", 300, 10000, [](uint64_t, vf::Rng& r) {
                 using Pool = MemoryPoolAllocator<RecBase, AdaptiveChunkPolicy>;
                 chunk_log() = ChunkLog();
                 {
                   RecBase base;
                   Pool pool(r.coin() ? 1024 : 64, &base);
                   PoolHist<Pool> h(r, "adaptive-policy(large)");
                   h.handles.emplace_back(new Pool(pool));
                   size_t k = r.range(1, 6);
                   for (size_t i = 0; i < k && !h.failed; i++) {
                     size_t n = r.coin() ? r.range(60000, 140000) : r.range(1, 3000);
                     h.log("Malloc(" + std::to_string(n) + ")");
                     void* p = h.any().Malloc(n);
                     c_big.add();
                     vf::eval();
                     if (!p || !h.check_new_block(p, n, "Malloc-large")) break;
                     Block b{(uintptr_t)p, n, (n + 7) & ~(size_t)7, ++h.serial};
                     h.fill(b);
                     h.blocks[b.p] = b;
                     h.consumed += b.asize;
                   }
                   if (!h.failed) { h.verify_all("large"); h.check_accounting("large"); }
                   vf::distinct(vf::hash_str(h.trace));
                 }
                 for (auto& kv : chunk_log().live) std::free((void*)kv.first);
                 chunk_log() = ChunkLog();
               }});
#if !VF_SANITIZER
  // requests of 4 GiB and more (the memory is reserved by overcommit and never touched): size arithmetic must be 64-bit
  S.push_back({"requests_beyond_4GiB", 24, 200, [](uint64_t i, vf::Rng& r) {
                 using Pool = MemoryPoolAllocator<RecBase, SimpleChunkPolicy>;
                 chunk_log() = ChunkLog();
                 {
                   RecBase base;
                   PoolHist<Pool> h(r, "simple-policy(huge)");
                   h.handles.emplace_back(new Pool(65536, &base));
                   static const size_t huge[] = {(1ULL << 32), (1ULL << 32) + 64, (1ULL << 32) - 8, (1ULL << 33) + 24, (3ULL << 31) + 8};
                   size_t n = huge[i % 5];
                   vf::eval();
                   c_big.add();
                   void* small1 = h.any().Malloc(40);
                   if (small1) { Block b{(uintptr_t)small1, 40, 40, ++h.serial}; h.fill(b); h.blocks[b.p] = b; h.consumed += 40; }
                   h.log("Malloc(" + std::to_string(n) + ")");
                   void* p = h.any().Malloc(n);
                   if (p) {  // may legitimately fail when the address space is refused
                     if (h.check_new_block(p, n, "Malloc-huge")) {
                       Block b{(uintptr_t)p, n, (n + 7) & ~(size_t)7, ++h.serial};
                       // touch only both ends
                       ((unsigned char*)p)[0] = 1;
                       ((unsigned char*)p)[n - 1] = 2;
                       h.blocks[b.p] = Block{b.p, 1, b.asize, b.serial};
                       ((unsigned char*)p)[0] = pat(b.serial, 0);
                       h.consumed += b.asize;
                       void* q = h.any().Malloc(24);
                       if (q && h.check_new_block(q, 24, "Malloc-after-huge")) {
                         uintptr_t qa = (uintptr_t)q;
                         if (qa >= b.p && qa < b.p + n) h.fail("blocks-overlap:Malloc-after-huge", "a later block lies inside the huge block");
                         h.consumed += 24;
                       }
                       if (!h.failed) h.check_accounting("huge");
                     }
                     vf::count("huge-requests-granted");
                   } else vf::count("huge-requests-refused");
                   vf::distinct_enum(1);
                 }
                 for (auto& kv : chunk_log().live) std::free((void*)kv.first);
                 chunk_log() = ChunkLog();
               }, false});
  // requests that no allocator can satisfy (within 64 bytes of SIZE_MAX, and around SIZE_MAX/2): the answer must be
  // null, the pool must stay usable and its accounting unchanged; size arithmetic must not wrap around
  S.push_back({"requests_that_cannot_be_satisfied", 200, 2000, [](uint64_t i, vf::Rng& r) {
                 using Pool = MemoryPoolAllocator<RecBase, SimpleChunkPolicy>;
                 chunk_log() = ChunkLog();
                 {
                   RecBase base;
                   PoolHist<Pool> h(r, "simple-policy(unsatisfiable)");
                   h.handles.emplace_back(new Pool(r.coin() ? 65536 : 1024, &base));
                   vf::eval();
                   c_unsat.add();
                   size_t warm = i % 4;  // blocks handed out before the absurd request
                   for (size_t k = 0; k < warm; k++) {
                     size_t n = r.range(1, 200);
                     void* p = h.any().Malloc(n);
                     if (p && h.check_new_block(p, n, "Malloc")) { Block b{(uintptr_t)p, n, (n + 7) & ~(size_t)7, ++h.serial}; h.fill(b); h.blocks[b.p] = b; h.consumed += b.asize; }
                   }
                   size_t n = (i / 4) % 3 == 2 ? (SIZE_MAX / 2) + 1 + r.below(64) : SIZE_MAX - ((i / 12) % 80);
                   size_t size_before = h.any().Size(), cap_before = h.any().Capacity();
                   bool via_realloc = (i / 4) % 3 == 1 && !h.blocks.empty();
                   void* p;
                   if (via_realloc) {
                     Block& last = h.blocks.rbegin()->second;
                     h.log("Realloc(block," + std::to_string(last.size) + ",SIZE_MAX-" + std::to_string(SIZE_MAX - n) + ")");
                     p = h.any().Realloc((void*)last.p, last.size, n);
                     if (p == (void*)last.p) h.fail("Realloc-unsatisfiable-returned-the-old-block", "Realloc to " + std::to_string(n) + " bytes returned the unchanged block as if it had grown");
                   } else {
                     h.log("Malloc(SIZE_MAX-" + std::to_string(SIZE_MAX - n) + ")");
                     p = h.any().Malloc(n);
                   }
                   if (p && !h.failed) h.fail("unsatisfiable-request-granted", "request of " + std::to_string(n) + " bytes returned a non-null block");
                   if (!h.failed && (h.any().Size() != size_before || h.any().Capacity() != cap_before))
                     h.fail("accounting-changed-by-refused-request", "Size " + std::to_string(size_before) + " -> " + std::to_string(h.any().Size()) + ", Capacity " + std::to_string(cap_before) + " -> " + std::to_string(h.any().Capacity()));
                   // the pool must still serve, disjoint from everything live
                   for (int k = 0; k < 3 && !h.failed; k++) {
                     size_t m = r.range(1, 300);
                     void* q = h.any().Malloc(m);
                     if (!q) { h.fail("pool-unusable-after-refused-request", "Malloc(" + std::to_string(m) + ") returned null"); break; }
                     if (h.check_new_block(q, m, "Malloc-after-refusal")) { Block b{(uintptr_t)q, m, (m + 7) & ~(size_t)7, ++h.serial}; h.fill(b); h.blocks[b.p] = b; h.consumed += b.asize; }
                   }
                   if (!h.failed) h.verify_all("after-refused-request");
                   vf::distinct(vf::hash_combine(n, warm * 2 + via_realloc));
                 }
                 for (auto& kv : chunk_log().live) std::free((void*)kv.first);
                 chunk_log() = ChunkLog();
               }, false});
#endif
  return vf::run(argc, argv, S);
}
