#!/usr/bin/env python3
"""Regenerates /verif/MANIFEST.json from props.py (single source of truth for what is claimed)."""
import json
import os
import subprocess
import sys

ROOT = os.path.dirname(os.path.dirname(os.path.abspath(__file__)))
sys.path.insert(0, ROOT)
from props import PROPS  # noqa: E402

ALL = ["C%02d" % i for i in range(1, 21)]


def hook_commits():
    try:
        out = subprocess.run(["git", "-C", "/repo", "log", "--format=%H %s"], stdout=subprocess.PIPE, text=True).stdout
    except OSError:
        return []
    return [l.split()[0] for l in out.splitlines() if " hook:" in l or l.split(" ", 1)[1].startswith("hook")]


checks = []
na = []
for pid in ALL:
    P = PROPS.get(pid)
    if not P or P.get("unclaimed"):
        na.append(dict(property_id=pid, reason=(P or {}).get("unclaimed", "check not built yet (work in progress; see DESIGN.md section 4 for the plan)")))
        continue
    c = dict(
        property_id=pid,
        quick_cmd="./check %s --tier quick" % pid,
        thorough_cmd="./check %s --tier thorough" % pid,
        evidence_file="evidence/%s.json" % pid,
        replay_cmd_template="./check %s --replay {path}" % pid,
        engine="runtime-monitor",
        level_claimed=dict(category="exploration", text=P.get("level_text", P["rule"]), design_ref="DESIGN.md section 4, " + pid),
        level_note="; ".join(P.get("assumptions", [])) or "sanitizer + oracle observe only the executions produced",
        technique=P.get("technique", "runtime monitoring: sanitizer-instrumented execution of generated workloads judged by a reference oracle"),
    )
    checks.append(c)

m = dict(
    version=1,
    setup_cmd="./check --build-all",
    hooks=dict(guard="SONIC_VERIF_HOOKS", enable="every harness is compiled with -DSONIC_VERIF_HOOKS=1 by ./check (props.py / build_cmd)",
               baseline_off_cmd="scripts/baseline_off.sh", source_commits=hook_commits(), add_only=True),
    engines=[dict(name="runtime-monitor", path="check", serves_properties=[c["property_id"] for c in checks],
                  kind_free_text="python driver + C++ harnesses compiled against /repo/include under ASan/UBSan/TSan or with guard pages; "
                                 "oracles: reference parser, strtod/to_chars/GMP, lock-step models, ledger allocator")],
    checks=checks,
    notes=("Technique family: runtime monitoring and sanitizers only. All verdicts are 'held on the executions listed in the evidence'. "
           "UBSan: memory-safety checks fatal, arithmetic checks off (DESIGN.md 2.6). VERIF_SEED / VERIF_TIER / VERIF_SCALE honoured."),
    not_applicable=na,
)
with open(os.path.join(ROOT, "MANIFEST.json"), "w") as f:
    json.dump(m, f, indent=1)
print("MANIFEST.json: %d checks, %d not claimed" % (len(checks), len(na)))
