#!/bin/bash
# Calibration aid (not a registered check): line coverage of /repo/include/sonic reached by the quick-tier workloads.
# Builds every harness with -O0 --coverage in a scratch directory, runs it for each property it serves (one shard,
# VERIF_COV_SCALE of the quick case counts), merges the gcov JSON of all translation units and prints per-file and total
# line coverage plus every line never executed.  usage: scripts/coverage.sh [hsw|wsm|dyn|dyn-nohsw]   (default hsw)
ARCH=${1:-hsw}
case $ARCH in
  hsw) AF="-mavx2 -mpclmul -mbmi -mlzcnt";;
  wsm) AF="-msse4.2 -mpclmul";;
  dyn) AF="-DSONIC_DYNAMIC_DISPATCH=1 -msse -msse2 -msse4.1 -msse4.2 -mpclmul";;
  dyn-nohsw) AF="-DSONIC_DYNAMIC_DISPATCH=1 -msse -msse2 -msse4.1 -msse4.2 -mpclmul -DSONIC_VERIF_DISPATCH_NO_HASWELL=1";;
  *) echo "unknown arch"; exit 2;;
esac
W=$(mktemp -d /tmp/vcov.XXXXXX); SC=${VERIF_COV_SCALE:-0.2}
build() { src=$1; name=${src%.cpp}; mkdir -p $W/$name; cd $W/$name
  libs=""; case $name in number_harness|toa_harness) libs="-lgmp";; esac
  extra=""; [ $name = thread_harness ] && extra="-pthread -DSONIC_LOCKED_ALLOCATOR"
  g++ -std=c++17 -O0 -g --coverage $AF -DSONIC_VERIF_HOOKS=1 $extra -I/repo/include -I/verif/harness /verif/harness/$src -o $name $libs 2>&1 | grep -m3 error; }
run() { d=$1; shift; (cd $W/$d && timeout 1800 ./$d "$@" --tier quick --seed ${VERIF_SEED:-1} --scale $SC --out $W/$d/out.$RANDOM >/dev/null 2>&1); }
export -f build run; export W AF SC
ls /verif/harness/*.cpp | xargs -n1 basename | xargs -P 8 -I{} bash -c 'build {}'
for spec in "parse_harness --prop C01" "parse_harness --prop C02" "parse_harness --prop C03" "number_harness" "string_harness" "serialize_harness" "toa_harness --prop C07" "toa_harness --prop C08" \
            "kernel_harness --prop C09" "kernel_harness --prop C14" "ondemand_harness --prop C10" "ondemand_harness --prop C11" "mutation_harness --prop C12" "mutation_harness --prop C13" \
            "mutation_harness --prop C18" "xbuild_harness" "pool_harness" "thread_harness" "schema_harness --prop C19" "schema_harness --prop C13" "lazy_harness"; do
  echo "$spec"
done | xargs -P 8 -I{} bash -c 'run {}'
python3 - "$W" <<'PY'
import json,subprocess,glob,os,collections,sys
W=sys.argv[1]
lines=collections.defaultdict(lambda: collections.defaultdict(int))
for gcda in glob.glob(W+'/*/*.gcda'):
    out=subprocess.run(['gcov','--json-format','--stdout',os.path.basename(gcda)],cwd=os.path.dirname(gcda),stdout=subprocess.PIPE,stderr=subprocess.DEVNULL).stdout
    try: j=json.loads(out)
    except Exception: continue
    for f in j['files']:
        if '/repo/include/sonic' not in f['file']: continue
        fn=f['file'].split('/repo/include/')[1]
        for l in f['lines']: lines[fn][l['line_number']]+=l['count']
tot=cov=0
for fn in sorted(lines):
    n=len(lines[fn]); c=sum(1 for v in lines[fn].values() if v>0); tot+=n; cov+=c
    print('%-62s %5d/%5d %5.1f%%'%(fn,c,n,100.0*c/n if n else 0))
print('TOTAL %d/%d %.1f%%'%(cov,tot,100.0*cov/max(tot,1)))
print('--- lines emitted by the compiler and never executed')
for fn in sorted(lines):
    un=sorted(k for k,v in lines[fn].items() if v==0)
    if not un: continue
    src=open('/repo/include/'+fn).read().split('\n')
    for n in un: print('%s:%d: %s'%(fn,n,src[n-1].strip()[:100]))
PY
rm -rf "$W"
