#!/usr/bin/env python3
"""Confirms a seeded change myself, in a scratch worktree of /repo's HEAD (outside /repo and /verif):
  1. the patch applies, the library still compiles and the repository's unit-test suite gives exactly the
     baseline set of passing tests;
  2. the author's demonstration exits non-zero with the patch and zero without it.
Usage: verify_seeded.py <srcdir with patch.diff demo.cpp notes.md> <seed id, e.g. C05-a> [--jobs N]
Writes /verif/seeded/<id>/{patch.diff,demo.cpp,notes.md,meta.json} when everything is confirmed."""
import json
import os
import re
import shutil
import subprocess
import sys
import xml.etree.ElementTree as ET

SRC, SID = sys.argv[1], sys.argv[2]
JOBS = "8"
if "--jobs" in sys.argv:
    JOBS = sys.argv[sys.argv.index("--jobs") + 1]
WT = "/tmp/sv_" + SID
BASE_CACHE = "/tmp/sv_baseline_passing.json"


def sh(cmd, cwd=None, timeout=3600):
    p = subprocess.run(cmd, shell=True, cwd=cwd, stdout=subprocess.PIPE, stderr=subprocess.STDOUT, text=True, errors="replace", timeout=timeout)
    return p.returncode, p.stdout


def run_suite(wt):
    b = wt + "/_build"
    rc, out = sh("cmake -G Ninja -S %s -B %s -DFETCHCONTENT_SOURCE_DIR_GOOGLETEST=/usr/src/googletest -DCMAKE_BUILD_TYPE=RelWithDebInfo "
                 "-DCMAKE_CXX_FLAGS=-Wno-error >/dev/null 2>&1 && cmake --build %s -j%s 2>&1 | tail -30" % (wt, b, b, JOBS))
    if not os.path.exists(b + "/tests/unittest"):
        return None, "build failed:\n" + out[-3000:]
    xml = b + "/res.xml"
    sh("%s/tests/unittest --gtest_output=xml:%s >/dev/null 2>&1" % (b, xml), cwd=wt, timeout=1800)
    if not os.path.exists(xml):
        return None, "test binary produced no result (crash?)"
    passed = set()
    for tc in ET.parse(xml).getroot().iter("testcase"):
        if tc.find("failure") is None and tc.find("error") is None:
            passed.add(tc.get("classname") + "::" + tc.get("name"))
    return passed, ""


def demo_cmd(demo_path, wt):
    lines = open(demo_path, errors="replace").read().splitlines()[:60]
    cmd = None
    i = 0
    while i < len(lines):
        l = lines[i]
        m = re.search(r"(g\+\+ .*)$", l)
        if m and l.lstrip().startswith("//") or (m and l.lstrip().startswith("*")):
            c = m.group(1)
            while c.rstrip().endswith("\\") and i + 1 < len(lines):
                i += 1
                c = c.rstrip()[:-1] + " " + re.sub(r"^\s*(//|\*)\s*", "", lines[i])
            cmd = c
            break
        i += 1
    if not cmd:
        return None
    cmd = re.split(r"\s(&&|;)\s", cmd)[0]
    cmd = re.sub(r"-I/tmp/mut\d*/C\d+/include", "-I%s/include" % wt, cmd)
    cmd = re.sub(r"-o\s+\S+", "", cmd)
    cmd = re.sub(r"\S*demo\.cpp\b", demo_path, cmd)
    return cmd


def main():
    patch = os.path.join(SRC, "patch.diff")
    demo = os.path.join(SRC, "demo.cpp")
    res = dict(id=SID, source=SRC)
    sh("git -C /repo worktree remove --force %s" % WT)
    shutil.rmtree(WT, ignore_errors=True)
    rc, out = sh("git -C /repo worktree add -q --detach %s HEAD" % WT)
    if rc:
        print("cannot create worktree", out)
        return 2
    try:
        head = sh("git -C /repo rev-parse --short HEAD")[1].strip()
        res["repo_head"] = head
        # baseline passing set (cached per HEAD)
        base = None
        if os.path.exists(BASE_CACHE):
            c = json.load(open(BASE_CACHE))
            if c.get("head") == head:
                base = set(c["passed"])
        if base is None:
            base, err = run_suite(WT)
            if base is None:
                print("baseline suite failed:", err)
                return 2
            json.dump(dict(head=head, passed=sorted(base)), open(BASE_CACHE, "w"))
            shutil.rmtree(WT + "/_build", ignore_errors=True)
        rc, out = sh("git apply --check %s" % patch, cwd=WT)
        if rc:
            print("RESULT %s: patch does not apply on %s: %s" % (SID, head, out.strip()[:300]))
            return 3
        # demo without the patch
        cmd = demo_cmd(demo, WT)
        if not cmd:
            print("RESULT %s: no compile command found in demo.cpp" % SID)
            return 3
        exe = WT + "/demo_bin"
        rc, out = sh(cmd + " -o " + exe, cwd=WT)
        if rc:
            print("RESULT %s: demo does not compile on the unmodified tree:\n%s" % (SID, out[-1500:]))
            return 3
        rc_clean, out_clean = sh(exe, cwd=WT, timeout=1800)
        sh("git apply %s" % patch, cwd=WT)
        rc, out = sh(cmd + " -o " + exe, cwd=WT)
        if rc:
            print("RESULT %s: demo does not compile with the patch:\n%s" % (SID, out[-1500:]))
            return 3
        rc_mut, out_mut = sh(exe, cwd=WT, timeout=1800)
        res["demo_cmd"] = cmd.replace(WT, "<worktree>")
        res["demo_exit_unmodified"] = rc_clean
        res["demo_exit_with_patch"] = rc_mut
        res["demo_output_with_patch_tail"] = out_mut[-600:]
        passed, err = run_suite(WT)
        if passed is None:
            print("RESULT %s: suite with patch: %s" % (SID, err[:1500]))
            return 3
        res["suite_passing_with_patch"] = len(passed)
        res["suite_passing_baseline"] = len(base)
        res["suite_same_as_baseline"] = passed == base
        res["suite_diff"] = sorted(base ^ passed)[:10]
        ok = rc_clean == 0 and rc_mut != 0 and passed == base
        res["confirmed"] = ok
        print("RESULT %s: demo clean=%s patched=%s suite_same=%s -> %s" % (SID, rc_clean, rc_mut, passed == base, "CONFIRMED" if ok else "NOT CONFIRMED"))
        if ok:
            dst = "/verif/seeded/" + SID
            os.makedirs(dst, exist_ok=True)
            for f in ("patch.diff", "demo.cpp", "notes.md"):
                if os.path.exists(os.path.join(SRC, f)):
                    shutil.copy(os.path.join(SRC, f), dst)
            meta_path = dst + "/meta.json"
            meta = json.load(open(meta_path)) if os.path.exists(meta_path) else {}
            meta.update(dict(id=SID, property=SID.split("-")[0], author="independent sub-agent given only the property record and a scratch worktree",
                             confirmed_by_me=res))
            json.dump(meta, open(meta_path, "w"), indent=1)
        return 0 if ok else 4
    finally:
        sh("git -C /repo worktree remove --force %s" % WT)
        shutil.rmtree(WT, ignore_errors=True)


if __name__ == "__main__":
    sys.exit(main())
