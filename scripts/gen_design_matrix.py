#!/usr/bin/env python3
"""Regenerates section 10 of DESIGN.md (between the MATRIX markers) from the matrix logs kept under seeded/."""
import json, os, re, sys
ROOT = os.path.dirname(os.path.dirname(os.path.abspath(__file__)))

def load(path):
    rows = {}
    if not os.path.exists(path):
        return rows
    for l in open(path):
        m = re.match(r'(C\d\d-[a-z]) (C\d\d) rc=(\d+) keys=(\d+) (\d+)s \| ?(.*)', l.strip())
        if m:
            sid, chk, rc, keys, sec, first = m.groups()
            rows.setdefault(sid, {})[chk] = (int(rc), int(keys), first)  # later lines override earlier ones
    return rows

def table(rows, marks):
    out = ["| change | breaks | what it needs to manifest | caught by (first violation key) | not caught by |", "|---|---|---|---|---|"]
    for sid in sorted(rows):
        meta = json.load(open(os.path.join(ROOT, 'seeded', sid, 'meta.json')))
        need = meta['needs_to_manifest']
        need = need if len(need) < 170 else need[:167] + '...'
        caught, missed = [], []
        for chk in meta.get('checks_expected', []):
            if chk not in rows[sid]:
                continue
            rc, keys, first = rows[sid][chk]
            if rc == 1:
                caught.append("**%s** `%s`" % (chk, re.sub(r' \(\d+ occ.*', '', first)[:95]))
            else:
                missed.append(chk)
        out.append("| %s%s | %s | %s | %s | %s |" % (sid, ' †' if sid in marks else '', meta['breaks_property'], need.replace('|', '\\|'),
                                                  '<br>'.join(caught), ', '.join(missed) or '–'))
    return out

notes = json.load(open(os.path.join(ROOT, 'seeded', 'matrix_notes.json')))
parts = []
for rnd in notes['rounds']:
    rows = load(os.path.join(ROOT, 'seeded', rnd['log']))
    parts += ["### " + rnd['title'], "", rnd['intro'], ""] + table(rows, set(rnd.get('marks', []))) + [""] + rnd.get('after', []) + [""]
text = "\n".join(parts)
p = os.path.join(ROOT, 'DESIGN.md')
s = open(p).read()
a, b = s.index('<!-- MATRIX:BEGIN -->'), s.index('<!-- MATRIX:END -->')
s = s[:a] + '<!-- MATRIX:BEGIN -->\n' + text + '\n' + s[b:]
open(p, 'w').write(s)
print("section 10 regenerated:", sum(len(load(os.path.join(ROOT, 'seeded', r['log']))) for r in notes['rounds']), "changes")
