#!/bin/bash
# runs every registered check (quick by default) and prints one status line per property
tier=${1:-quick}
cd "$(dirname "$0")/.."
props="${@:2}"
[ -z "$props" ] && props=$(python3 -c "import json;print(' '.join(c['property_id'] for c in json.load(open('MANIFEST.json'))['checks']))")
for p in $props; do
  t0=$(date +%s)
  out=$(./check $p --tier $tier 2>&1); rc=$?
  echo "$p rc=$rc $(( $(date +%s)-t0 ))s $(echo "$out" | grep -E '^\[C..\] done' | sed 's/.*done //') $(echo "$out" | grep -c '^KNOWN-FINDING') known"
  echo "$out" | grep -E "^VIOLATION|^INCONCLUSIVE|key=" | head -5
done
