#!/bin/bash
# Builds the repository's own unit-test suite with the hook guard OFF (no -DSONIC_VERIF_HOOKS) in a build
# directory outside /repo, runs it, and compares the set of passing tests with /root/.vp/BASELINE.json.
set -u
BDIR=${BASELINE_BUILD_DIR:-/tmp/sonic_baseline_build}
OUT=$BDIR/result.xml
mkdir -p "$BDIR"
cmake -G Ninja -S /repo -B "$BDIR" -DFETCHCONTENT_SOURCE_DIR_GOOGLETEST=/usr/src/googletest \
      -DCMAKE_BUILD_TYPE=RelWithDebInfo -DCMAKE_CXX_FLAGS=-Wno-error >"$BDIR/cmake.log" 2>&1 || { cat "$BDIR/cmake.log"; echo "baseline: cmake failed"; exit 2; }
cmake --build "$BDIR" -j"$(nproc)" >"$BDIR/build.log" 2>&1 || { tail -50 "$BDIR/build.log"; echo "baseline: build failed"; exit 2; }
(cd /repo && "$BDIR/tests/unittest" --gtest_output=xml:"$OUT" >"$BDIR/run.log" 2>&1)
python3 - "$OUT" <<'PY'
import json, sys, xml.etree.ElementTree as ET
base = json.load(open('/root/.vp/BASELINE.json'))
want = set(base['stable_pass'])
root = ET.parse(sys.argv[1]).getroot()
passed = set()
failed = set()
for tc in root.iter('testcase'):
    name = tc.get('classname') + '::' + tc.get('name')
    if tc.find('failure') is None and tc.find('error') is None and tc.get('status', 'run') != 'notrun':
        passed.add(name)
    else:
        failed.add(name)
missing = sorted(want - passed)
print("baseline: %d of %d stable tests pass; %d other tests failed" % (len(want & passed), len(want), len(failed - set(base.get('always_fail', [])))))
for m in missing:
    print("  NOT PASSING:", m)
sys.exit(1 if missing else 0)
PY
rc=$?
if [ "${BASELINE_KEEP:-0}" != "1" ]; then rm -rf "$BDIR"; fi
exit $rc
