#!/bin/bash
# usage: scripts/try_mutant.sh <patch.diff> <prop> [<prop>...]   -- applies a seeded change to /repo, runs the quick checks, reverts
set -u
P=$1; shift
cd /repo || exit 2
if ! git diff --quiet; then echo "repo has uncommitted changes"; exit 2; fi
if ! git apply --check "$P" 2>/dev/null; then echo "PATCH DOES NOT APPLY: $P"; exit 3; fi
git apply "$P"
cd /verif
for prop in "$@"; do
  out=$(VERIF_SCALE=${VERIF_SCALE:-1} ./check "$prop" 2>&1)
  rc=$?
  echo "== $prop rc=$rc $(echo "$out" | grep -c '^VIOLATION') violation keys"
  echo "$out" | grep -E "key=" | cut -c1-220 | head -${SHOW:-6}
done
git -C /repo checkout -- .
