#!/bin/bash
# Calibration sweep: every seeded change x the quick checks that should notice it, on a scratch worktree of /repo's
# HEAD (VERIF_REPO), with its own build cache and output directory, so that /repo, /verif/build and /verif/evidence
# are not touched.  usage: scripts/seeded_matrix.sh [seed-id ...]     results: one line per (seed, check)
WT=/tmp/svm_tree; OUT=/tmp/svm_out; BLD=/tmp/svm_build
git -C /repo worktree remove --force $WT 2>/dev/null; rm -rf $WT $OUT; mkdir -p $OUT
git -C /repo worktree add -q --detach $WT HEAD || exit 2
ids="$@"; [ -z "$ids" ] && ids=$(ls /verif/seeded)
for id in $ids; do
  prop=${id%%-*}
  checks=$(python3 -c "
import json,sys
m=json.load(open('/verif/seeded/$id/meta.json'))
print(' '.join(m.get('checks_expected',[m['property']])))")
  if ! git -C $WT apply --check /verif/seeded/$id/patch.diff 2>/dev/null; then echo "$id PATCH-DOES-NOT-APPLY"; continue; fi
  git -C $WT apply /verif/seeded/$id/patch.diff
  for c in $checks; do
    t0=$(date +%s)
    out=$(cd /verif && VERIF_REPO=$WT VERIF_BUILD=$BLD VERIF_OUT=$OUT timeout 1500 ./check $c 2>&1); rc=$?
    keys=$(echo "$out" | grep -c '^VIOLATION')
    first=$(echo "$out" | grep -m1 'key=' | sed 's/^ *key=//' | cut -c1-110)
    echo "$id $c rc=$rc keys=$keys $(( $(date +%s)-t0 ))s | $first"
  done
  git -C $WT checkout -- .
done
git -C /repo worktree remove --force $WT; rm -rf $BLD $OUT
