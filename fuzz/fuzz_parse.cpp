// libFuzzer target for C01 / C02 / C03 (thorough tier): coverage-guided inputs judged by the same oracles as
// parse_harness.cpp (reference recogniser / reference value / fresh-document comparison), under ASan.
// env VF_PROP selects the property whose oracle reports (C01, C02 or C03).
#define VF_FUZZ_TARGET 1
#include "../harness/parse_harness.cpp"

extern "C" int LLVMFuzzerInitialize(int*, char***) {
  if (const char* p = getenv("VF_PROP")) g_prop = p;
  // seed corpus: generated documents and mutations of them, written once into $VF_CORPUS_DIR
  if (const char* dir = getenv("VF_CORPUS_DIR")) {
    uint64_t seed = getenv("VERIF_SEED") ? strtoull(getenv("VERIF_SEED"), nullptr, 10) : 1;
    for (int i = 0; i < 300; i++) {
      std::string t = doc_text(seed, "fuzz_seed_doc", (uint64_t)i, 4);
      if (t.size() > 2000) continue;
      if (i % 3 == 2) {
        vf::Rng r(seed, 99, (uint64_t)i);
        t = jm::mutate(t, r);
      }
      std::string path = std::string(dir) + "/seed_" + std::to_string(i);
      FILE* f = fopen(path.c_str(), "wb");
      if (f) {
        fwrite(t.data(), 1, t.size(), f);
        fclose(f);
      }
    }
  }
  return 0;
}

extern "C" int LLVMFuzzerTestOneInput(const uint8_t* data, size_t size) {
  std::string text((const char*)data, size);
  one_input(text);
  if (g_prop == "C02") {
    // reuse: a second document parses a valid text, then this input, then the valid text again
    static const std::string good = "{\"a\":[1,2,{\"b\":\"c\"}],\"d\":null}";
    su::SimpleDoc d;
    expect_parse(d, good, "simple", "fresh");
    expect_parse(d, text, "simple", "ok-parse");
    expect_parse(d, good, "simple", d.HasParseError() ? "failed-parse" : "ok-parse");
  }
  return 0;
}
