// libFuzzer target for C12 / C13 / C18 (thorough tier): the fuzzer's bytes are the decision tape of the operation
// generators of mutation_harness.cpp (vf::Rng::set_tape), so coverage feedback steers which operations, paths, key
// families and sizes a history contains; oracles are the harness's own (lock-step model after every operation, ledger
// allocator, value-equality model), under ASan.  env VF_PROP selects the property.
#define VF_FUZZ_TARGET 1
#include "../harness/mutation_harness.cpp"

extern "C" int LLVMFuzzerInitialize(int*, char***) {
  if (const char* p = getenv("VF_PROP")) g_prop = p;
  if (const char* dir = getenv("VF_CORPUS_DIR")) {
    uint64_t seed = getenv("VERIF_SEED") ? strtoull(getenv("VERIF_SEED"), nullptr, 10) : 1;
    for (int i = 0; i < 64; i++) {
      vf::Rng r(seed, 777, (uint64_t)i);
      std::string t(64 + 32 * (size_t)(i % 16), 0);
      for (auto& c : t) c = (char)r.below(256);
      std::string path = std::string(dir) + "/seed_" + std::to_string(i);
      FILE* f = fopen(path.c_str(), "wb");
      if (f) {
        fwrite(t.data(), 1, t.size(), f);
        fclose(f);
      }
    }
  }
  return 0;
}

extern "C" int LLVMFuzzerTestOneInput(const uint8_t* data, size_t size) {
  if (size < 8) return 0;
  vf::Rng r;
  r.set_tape(data, size);
  if (g_prop == "C12") {
    if (data[size - 1] & 1) c12_history<su::PoolDoc>(r, "pool"); else c12_history<su::SimpleDoc>(r, "malloc");
  } else if (g_prop == "C13") {
    if (data[size - 1] & 3) c13_history(r); else c13_lazy_case(r);
  } else {
    switch (data[size - 1] % 4) {
      case 0: c18_longkey_case(r); break;
      case 1: c18_scalar_case(r); break;
      default: c18_case(r);
    }
  }
  if (const_pool().size() > 4000) const_pool().clear();
  return 0;
}
