// libFuzzer target for C05 (thorough tier): coverage-guided string literal bodies judged by string_harness.cpp's oracle
// (reference decoder; value, DOM key and on-demand key roles; exact-size buffers), under ASan.
// byte 0 of the input selects the leading pad (alignment of the literal to the vector blocks), the rest is the raw body.
#define VF_FUZZ_TARGET 1
#include "../harness/string_harness.cpp"

extern "C" int LLVMFuzzerInitialize(int*, char***) {
  if (const char* dir = getenv("VF_CORPUS_DIR")) {
    static const char* seeds[] = {"plain", "a\\nb", "\\u0041\\u00e9\\u20ac", "\\ud83d\\ude00", "\\ud800", "\\udc00\\udc00", "x\\qy", "\\u12", "tab\there",
                                  "0123456789abcdef0123456789abcdef\\\\", "0123456789abcdef0123456789abcde\\\"f", "\\\\\\\\\\\\\\\\", "\xc3\xa9\xe2\x82\xac", ""};
    int i = 0;
    for (const char* sd : seeds)
      for (int pad : {0, 7, 31}) {
        std::string t = std::string(1, (char)pad) + sd;
        std::string path = std::string(dir) + "/seed_" + std::to_string(i++);
        FILE* f = fopen(path.c_str(), "wb");
        if (f) {
          fwrite(t.data(), 1, t.size(), f);
          fclose(f);
        }
      }
  }
  return 0;
}

extern "C" int LLVMFuzzerTestOneInput(const uint8_t* data, size_t size) {
  if (size == 0) return 0;
  size_t pad = data[0] % 70;
  std::string raw((const char*)data + 1, size - 1);
  judge_literal(raw, pad, "fuzz");
  return 0;
}
