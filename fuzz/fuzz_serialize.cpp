// libFuzzer target over the streams of serialize_harness.cpp (see fuzz_streams.inc)
#define VF_FUZZ_TARGET 1
#define main harness_main
#include "../harness/serialize_harness.cpp"
#undef main
#include "fuzz_streams.inc"
