// libFuzzer target for C19 / C20 (thorough tier).  The input is split at the first 0x00 byte into two texts.
// When both are valid JSON without duplicate keys: VF_PROP=C20 judges UpdateLazy(first, second) against the merge
// model; VF_PROP=C19 parses the first, applies ParseSchema(second) and judges against the schema merge model.
#define VF_FUZZ_TARGET 1
#include "../harness/lazy_harness.cpp"
namespace c19 {
#include "../harness/schema_harness.cpp"
}

static std::string g_which = "C20";
extern "C" int LLVMFuzzerInitialize(int*, char***) {
  if (const char* p = getenv("VF_PROP")) g_which = p;
  if (const char* dir = getenv("VF_CORPUS_DIR")) {
    uint64_t seed = getenv("VERIF_SEED") ? strtoull(getenv("VERIF_SEED"), nullptr, 10) : 1;
    for (int i = 0; i < 300; i++) {
      vf::Rng r(seed, 7, (uint64_t)i);
      JVal t = gen_objecty(r, 0, r.range(0, 6), i & 1);
      JVal s = derive_source(t, r, 0, i & 1);
      std::string text = render_with(t, r, 0, 10) + std::string(1, '\0') + render_with(s, r, 0, 10);
      if (text.size() > 2000) continue;
      std::string path = std::string(dir) + "/seed_" + std::to_string(i);
      FILE* f = fopen(path.c_str(), "wb");
      if (f) {
        fwrite(text.data(), 1, text.size(), f);
        fclose(f);
      }
    }
  }
  return 0;
}

extern "C" int LLVMFuzzerTestOneInput(const uint8_t* data, size_t size) {
  const uint8_t* z = (const uint8_t*)memchr(data, 0, size);
  if (!z) return 0;
  std::string a((const char*)data, z - data), b((const char*)z + 1, size - (z - data) - 1);
  if (a.size() > 2000 || b.size() > 2000) return 0;
  if (g_which == "C20") {
    judge(a, b, "fuzz");
    return 0;
  }
  jm::RefResult ra = jm::ref_parse(a), rb = jm::ref_parse(b);
  if (!ra.ok || !rb.ok || jm::has_dup_keys(ra.v) || jm::has_dup_keys(rb.v)) return 0;
  vf::Rng r(size + 1);
  {
    su::PoolDoc d;
    d.Parse(a.data(), a.size());
    if (d.HasParseError()) return 0;
    JVal model = ra.v;
    std::string trace = a;
    c19::apply_and_judge(d, model, rb.v, r, "pool", trace);
  }
  su::ledger_reset();
  {
    su::TrackDoc d;
    d.Parse(a.data(), a.size());
    if (!d.HasParseError()) {
      JVal model = ra.v;
      std::string trace = a;
      c19::apply_and_judge(d, model, rb.v, r, "ledger", trace);
    }
  }
  if (su::ledger_errors()) vf::violation("ledger-bad-free", su::ledger().last_error);
  if (su::ledger_live()) vf::violation("ledger-leak", std::to_string(su::ledger_live()) + " blocks after one ParseSchema");
  su::ledger_reset();
  return 0;
}
