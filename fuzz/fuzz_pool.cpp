// libFuzzer target over the streams of pool_harness.cpp (see fuzz_streams.inc)
#define VF_FUZZ_TARGET 1
#define main harness_main
#include "../harness/pool_harness.cpp"
#undef main
#include "fuzz_streams.inc"
