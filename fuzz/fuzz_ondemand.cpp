// libFuzzer target for C10 / C11 (thorough tier).  Input layout: first byte selects the path shape, the rest is
// the text.  C11: any bytes, exact heap copy, bounds of the result.  C10 (VF_PROP=C10): when the text is valid,
// every existing path and a family of non-resolving ones are compared with the reference tree.
#define VF_FUZZ_TARGET 1
#include "../harness/ondemand_harness.cpp"

extern "C" int LLVMFuzzerInitialize(int*, char***) {
  if (const char* p = getenv("VF_PROP")) g_prop = p;
  if (const char* dir = getenv("VF_CORPUS_DIR")) {
    uint64_t seed = getenv("VERIF_SEED") ? strtoull(getenv("VERIF_SEED"), nullptr, 10) : 1;
    for (int i = 0; i < 300; i++) {
      std::string t = gen_text_for_mut(seed, "fuzz_seed", (uint64_t)i);
      if (t.size() > 1500) continue;
      t = std::string(1, (char)i) + t;
      std::string path = std::string(dir) + "/seed_" + std::to_string(i);
      FILE* f = fopen(path.c_str(), "wb");
      if (f) {
        fwrite(t.data(), 1, t.size(), f);
        fclose(f);
      }
    }
  }
  return 0;
}

extern "C" int LLVMFuzzerTestOneInput(const uint8_t* data, size_t size) {
  if (size < 1) return 0;
  vf::Rng r(data[0] + 1);
  std::string text((const char*)data + 1, size - 1);
  if (g_prop == "C11") {
    c11_input(text, r);
    return 0;
  }
  jm::RefResult ref = jm::ref_parse(text);
  if (!ref.ok || text.size() > 3000) return 0;
  Exact buf(text);
  std::vector<Path> paths, bad;
  Path cur;
  all_paths(ref.v, cur, paths, 32);
  for (size_t i = 0; i < paths.size(); i++)
    if (i < 6) derived_paths(ref.v, paths[i], r, bad);
  for (auto& p : paths) judge_pair(text, ref, p, buf);
  for (auto& p : bad) judge_pair(text, ref, p, buf);
  return 0;
}
