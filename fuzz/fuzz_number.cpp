// libFuzzer target for C04 (thorough tier): coverage-guided number spellings judged by number_harness.cpp's oracle
// (glibc strtod for doubles, exact integer arithmetic for integers, overflow -> kParseErrorInfinity), under ASan.
// An input is used when, after cutting it at the first byte that cannot be part of a number, it is a JSON number.
#define VF_FUZZ_TARGET 1
#include "../harness/number_harness.cpp"

extern "C" int LLVMFuzzerInitialize(int*, char***) {
  if (const char* dir = getenv("VF_CORPUS_DIR")) {
    uint64_t seed = getenv("VERIF_SEED") ? strtoull(getenv("VERIF_SEED"), nullptr, 10) : 1;
    for (int i = 0; i < 400; i++) {
      vf::Rng r(seed, 4242, (uint64_t)i);
      std::string t = jm::gen_number_text_any(r);
      if (i % 5 == 4) {  // an exact tie between two doubles
        uint64_t b = pick_double_bits(r);
        long double lo = from_bits(b), hi = from_bits(b + 1);
        std::string dig;
        long e10;
        exact_decimal(lo + (hi - lo) / 2, dig, e10);
        if (dig.size() < 1500) t = respell(dig, e10, r);
      }
      std::string path = std::string(dir) + "/seed_" + std::to_string(i);
      FILE* f = fopen(path.c_str(), "wb");
      if (f) {
        fwrite(t.data(), 1, t.size(), f);
        fclose(f);
      }
    }
  }
  return 0;
}

extern "C" int LLVMFuzzerTestOneInput(const uint8_t* data, size_t size) {
  size_t n = 0;
  while (n < size && (isdigit(data[n]) || data[n] == '-' || data[n] == '+' || data[n] == '.' || data[n] == 'e' || data[n] == 'E')) n++;
  if (n == 0) return 0;
  std::string tok((const char*)data, n);
  Expect e;
  if (!expect_of(tok, e)) return 0;  // not a JSON number
  account(tok, e);
  vf::witness(tok);
  // context chosen by the bytes after the number, so that it is part of what the fuzzer explores
  int ctx = n < size ? data[n] % 7 : 1;
  judge_single<su::PoolDoc>(tok, ctx, e);
  if (n + 1 < size && (data[n + 1] & 1)) judge_single<su::SimpleDoc>(tok, (ctx + 1) % 7, e);
  return 0;
}
